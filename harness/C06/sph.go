package ackhandler

//vx:pkg github.com/refraction-networking/uquic/internal/ackhandler
//vx:entry Harness_C06_sph Harness_C06_skipped
//vx:reach Harness_C06_skipped C06.skip.happened C06.skip.rejected C06.skip.second-ack
//vx:param quick steps=3
//vx:param thorough steps=3
//vx:reach Harness_C06_sph C06.sent C06.acked C06.lost C06.ack-unsent C06.timeout C06.dropped C06.timer-set C06.probe-queued C06.migrated C06.retry

import (
	"errors"
	"time"

	"github.com/refraction-networking/uquic/internal/monotime"
	"github.com/refraction-networking/uquic/internal/protocol"
	"github.com/refraction-networking/uquic/internal/qerr"
	"github.com/refraction-networking/uquic/internal/utils"
	"github.com/refraction-networking/uquic/internal/wire"
)

// permissive congestion controller (as the tests' mock): C06 is about the accounts, C20 about the window
type vxCong struct{}

func (vxCong) TimeUntilSend(protocol.ByteCount) monotime.Time { return 0 }
func (vxCong) HasPacingBudget(monotime.Time) bool             { return true }
func (vxCong) OnPacketSent(monotime.Time, protocol.ByteCount, protocol.PacketNumber, protocol.ByteCount, bool) {
}
func (vxCong) CanSend(protocol.ByteCount) bool { return true }
func (vxCong) MaybeExitSlowStart()             {}
func (vxCong) OnPacketAcked(protocol.PacketNumber, protocol.ByteCount, protocol.ByteCount, monotime.Time) {
}
func (vxCong) OnCongestionEvent(protocol.PacketNumber, protocol.ByteCount, protocol.ByteCount) {}
func (vxCong) OnRetransmissionTimeout(bool)                                                    {}
func (vxCong) SetMaxDatagramSize(protocol.ByteCount)                                           {}
func (vxCong) InSlowStart() bool                                                               { return false }
func (vxCong) InRecovery() bool                                                                { return false }
func (vxCong) GetCongestionWindow() protocol.ByteCount                                         { return 1 << 30 }

const vxMaxSent = 8

type vxSentPkt struct {
	level   protocol.EncryptionLevel
	pn      protocol.PacketNumber
	size    protocol.ByteCount
	ae      bool
	mtu     bool
	acked   int
	lost    int
	dropped bool
}

type vxFrameHandler struct{ p *vxSentPkt }

func (h *vxFrameHandler) OnAcked(wire.Frame) { h.p.acked++ }
func (h *vxFrameHandler) OnLost(wire.Frame)  { h.p.lost++ }

type vxSentGhost struct {
	pkts        [vxMaxSent]*vxSentPkt
	n           int
	largestSent [5]protocol.PacketNumber // per encryption level; -1 = none
	skipped     [vxMaxSent]protocol.PacketNumber
	nskipped    int
	spaceGone   [5]bool
	retryDone   bool
	anyAck      bool
}

func vxSpaceOf(l protocol.EncryptionLevel) int { return int(l) }

func (g *vxSentGhost) inFlight() protocol.ByteCount {
	var s protocol.ByteCount
	for i := 0; i < g.n; i++ {
		p := g.pkts[i]
		if p.ae && p.acked == 0 && p.lost == 0 && !p.dropped {
			s += p.size
		}
	}
	return s
}

func (g *vxSentGhost) outstanding(l protocol.EncryptionLevel) bool {
	for i := 0; i < g.n; i++ {
		p := g.pkts[i]
		// Path-MTU probes are not data: their loss is expected and nothing is retransmitted, so they do not arm the timer
		if p.level == l && p.ae && !p.mtu && p.acked == 0 && p.lost == 0 && !p.dropped {
			return true
		}
	}
	return false
}

func (g *vxSentGhost) check(h *sentPacketHandler) {
	for i := 0; i < g.n; i++ {
		p := g.pkts[i]
		vx_assert("C06.frame-resolved-at-most-once", p.acked+p.lost <= 1)
	}
	vx_assert("C06.bytes-in-flight-balanced", h.bytesInFlight == g.inFlight())
	// a loss-detection deadline exists whenever crypto data, or post-confirmation application data, is outstanding
	need := g.outstanding(protocol.EncryptionInitial) || g.outstanding(protocol.EncryptionHandshake) ||
		(h.handshakeConfirmed && g.outstanding(protocol.Encryption1RTT))
	if need && !h.isAmplificationLimited() {
		vx_reach("C06.timer-set")
		vx_assert("C06.timer-set-when-data-outstanding", !h.GetLossDetectionTimeout().IsZero())
	}
}

var vxDts = [3]time.Duration{time.Millisecond, 250 * time.Millisecond, 70 * time.Second}

func Harness_C06_sph() {
	pers := protocol.PerspectiveClient
	if vx_bool("server") {
		pers = protocol.PerspectiveServer
	}
	rtt := utils.NewRTTStats()
	sph := NewSentPacketHandler(0, 1200, rtt, &utils.ConnectionStats{}, true, false, nil, pers, nil, utils.DefaultLogger)
	h := sph.(*sentPacketHandler)
	h.congestion = vxCong{}
	g := &vxSentGhost{}
	for i := range g.largestSent {
		g.largestSent[i] = protocol.InvalidPacketNumber
	}
	levels := [3]protocol.EncryptionLevel{protocol.EncryptionInitial, protocol.EncryptionHandshake, protocol.Encryption1RTT}
	now := monotime.Time(3600e9)
	steps := vx_param("steps")
	for step := 0; step < steps; step++ {
		now = now.Add(vxDts[vx_choice("dt", 3)])
		lvl := levels[vx_choice("level", 3)]
		gone := g.spaceGone[vxSpaceOf(lvl)]
		switch vx_choice("op", 7) {
		case 0: // send a packet
			if gone || g.n >= vxMaxSent {
				continue
			}
			prevPeek, _ := h.PeekPacketNumber(lvl)
			pn := h.PopPacketNumber(lvl)
			vx_assert("C06.peek-is-next-pop", prevPeek == pn)
			last := g.largestSent[vxSpaceOf(lvl)]
			vx_assert("C06.pn-strictly-increasing", pn > last)
			if last != protocol.InvalidPacketNumber && pn > last+1 {
				// numbers deliberately skipped by the generator
				vx_assert("C06.skip-at-most-one", pn == last+2)
				if g.nskipped < vxMaxSent {
					g.skipped[g.nskipped] = pn - 1
					g.nskipped++
				}
			}
			g.largestSent[vxSpaceOf(lvl)] = pn
			p := &vxSentPkt{level: lvl, pn: pn, ae: vx_bool("ackEliciting")}
			p.size = protocol.ByteCount(vx_range("size", 1, 1452))
			var frames []Frame
			if p.ae {
				frames = []Frame{{Frame: &wire.PingFrame{}, Handler: &vxFrameHandler{p: p}}}
			}
			mtuProbe := p.ae && lvl == protocol.Encryption1RTT && vx_bool("mtuProbe")
			p.mtu = mtuProbe
			h.SentPacket(now, pn, protocol.InvalidPacketNumber, nil, frames, lvl, protocol.ECNNon, p.size, mtuProbe, false)
			g.pkts[g.n] = p
			g.n++
			vx_reach("C06.sent")
		case 1: // an ACK arrives (one or two ranges)
			if gone {
				continue
			}
			lo := protocol.PacketNumber(vx_i64("ackSmallest"))
			hi := protocol.PacketNumber(vx_i64("ackLargest"))
			vx_assume(lo >= 0 && lo <= hi && hi < 1<<62)
			ack := &wire.AckFrame{AckRanges: []wire.AckRange{{Smallest: lo, Largest: hi}}}
			if vx_bool("twoRanges") {
				lo2 := protocol.PacketNumber(vx_i64("ackSmallest2"))
				hi2 := protocol.PacketNumber(vx_i64("ackLargest2"))
				vx_assume(lo2 >= 0 && lo2 <= hi2 && hi2 < 1<<62 && hi2+1 < lo)
				ack.AckRanges = append(ack.AckRanges, wire.AckRange{Smallest: lo2, Largest: hi2})
			}
			ack.DelayTime = time.Duration(vx_choice("ackDelayMs", 3)) * time.Millisecond
			unsent := hi > g.largestSent[vxSpaceOf(lvl)]
			coversSkipped := false
			if lvl == protocol.Encryption1RTT {
				for i := 0; i < g.nskipped; i++ {
					coversSkipped = vx_or(coversSkipped, ack.AcksPacket(g.skipped[i]))
				}
			}
			g.anyAck = true
			_, err := h.ReceivedAck(ack, lvl, now)
			if err != nil {
				var te *qerr.TransportError
				vx_assert("C06.ack-error-is-protocol-violation", errors.As(err, &te) && te.ErrorCode == qerr.ProtocolViolation)
				vx_assert("C06.ack-error-only-for-unsent-or-skipped", vx_or(unsent, coversSkipped))
				vx_reach("C06.ack-unsent")
				vx_stop()
			}
			vx_assert("C06.ack-for-unsent-rejected", !unsent)
			vx_assert("C06.ack-for-skipped-rejected", !coversSkipped)
			// every ack-eliciting packet of this space covered by the ACK is now resolved exactly once
			for i := 0; i < g.n; i++ {
				p := g.pkts[i]
				if p.level == lvl && p.ae && !p.dropped && ack.AcksPacket(p.pn) {
					vx_assert("C06.acked-packet-resolved", p.acked+p.lost == 1)
					if p.acked == 1 {
						vx_reach("C06.acked")
					}
				}
			}
		case 2: // the loss-detection timer fires
			alarm := h.GetLossDetectionTimeout()
			if alarm.IsZero() {
				continue
			}
			if alarm.After(now) {
				now = alarm
			}
			vx_reach("C06.timeout")
			err := h.OnLossDetectionTimeout(now)
			vx_assert("C06.timeout-no-error", err == nil)
		case 3: // keys of a space are dropped
			if lvl == protocol.Encryption1RTT || gone {
				continue
			}
			if lvl == protocol.EncryptionHandshake && !g.spaceGone[vxSpaceOf(protocol.EncryptionInitial)] {
				continue // Initial keys are always dropped first
			}
			h.DropPackets(lvl, now)
			g.spaceGone[vxSpaceOf(lvl)] = true
			for i := 0; i < g.n; i++ {
				if g.pkts[i].level == lvl {
					g.pkts[i].dropped = true
				}
			}
			vx_reach("C06.dropped")
		case 5: // the connection migrated to a new path: everything in flight on the old path is lost
			h.MigratedPath(now, 1200)
			h.congestion = vxCong{}
			for i := 0; i < g.n; i++ {
				p := g.pkts[i]
				if p.level == protocol.Encryption1RTT && p.ae && !p.dropped {
					vx_assert("C06.migration-resolves-everything", p.acked+p.lost == 1)
				}
			}
			vx_reach("C06.migrated")
		case 6: // Retry received: only possible for a client that has sent nothing but Initial packets and got no ACK
			if pers != protocol.PerspectiveClient || g.retryDone || g.anyAck || g.spaceGone[vxSpaceOf(protocol.EncryptionInitial)] {
				continue
			}
			onlyInitial := true
			for i := 0; i < g.n; i++ {
				if g.pkts[i].level != protocol.EncryptionInitial {
					onlyInitial = false
				}
			}
			if !onlyInitial || g.n == 0 {
				continue
			}
			h.ResetForRetry(now)
			g.retryDone = true
			// the packet number space starts afresh (numbers continue): ACKs for the discarded packets are unexpected
			g.largestSent[vxSpaceOf(protocol.EncryptionInitial)] = protocol.InvalidPacketNumber
			g.largestSent[vxSpaceOf(protocol.Encryption1RTT)] = protocol.InvalidPacketNumber
			for i := 0; i < g.n; i++ {
				p := g.pkts[i]
				if p.ae {
					vx_assert("C06.retry-requeues-everything", p.lost == 1 && p.acked == 0)
				}
				p.dropped = true // the old packets are forgotten
			}
			vx_reach("C06.retry")
		case 4: // PTO probe: the oldest outstanding packet is queued for retransmission
			if gone {
				continue
			}
			if h.QueueProbePacket(lvl) {
				vx_reach("C06.probe-queued")
			}
		}
		for i := 0; i < g.n; i++ {
			if g.pkts[i].lost == 1 {
				vx_reach("C06.lost")
			}
		}
		g.check(h)
	}
}


// Directed history for the opportunistic-ACK defence: enough 1-RTT packets for the generator to skip a
// number (the random draw is symbolic), then two arbitrary ACK frames.
func Harness_C06_skipped() {
	rtt := utils.NewRTTStats()
	sph := NewSentPacketHandler(0, 1200, rtt, &utils.ConnectionStats{}, true, false, nil, protocol.PerspectiveClient, nil, utils.DefaultLogger)
	h := sph.(*sentPacketHandler)
	h.congestion = vxCong{}
	now := monotime.Time(3600e9)
	var sent [6]protocol.PacketNumber
	skipped := protocol.InvalidPacketNumber
	last := protocol.InvalidPacketNumber
	for i := range sent {
		pn := h.PopPacketNumber(protocol.Encryption1RTT)
		if last != protocol.InvalidPacketNumber && pn == last+2 {
			vx_assert("C06.skip.only-one", skipped == protocol.InvalidPacketNumber)
			skipped = pn - 1
			vx_reach("C06.skip.happened")
		} else {
			vx_assert("C06.skip.sequential", last == protocol.InvalidPacketNumber || pn == last+1)
		}
		last = pn
		sent[i] = pn
		h.SentPacket(now, pn, protocol.InvalidPacketNumber, nil, []Frame{{Frame: &wire.PingFrame{}}}, protocol.Encryption1RTT, protocol.ECNNon, 1200, false, false)
		now = now.Add(time.Millisecond)
	}
	if skipped == protocol.InvalidPacketNumber {
		vx_stop()
	}
	for k := 0; k < 2; k++ {
		lo := protocol.PacketNumber(vx_i64("ackSmallest"))
		hi := protocol.PacketNumber(vx_i64("ackLargest"))
		vx_assume(lo >= 0 && lo <= hi && hi < 1<<62)
		ack := &wire.AckFrame{AckRanges: []wire.AckRange{{Smallest: lo, Largest: hi}}}
		if vx_bool("twoRanges") {
			lo2 := protocol.PacketNumber(vx_i64("ackSmallest2"))
			hi2 := protocol.PacketNumber(vx_i64("ackLargest2"))
			vx_assume(lo2 >= 0 && lo2 <= hi2 && hi2 < 1<<62 && hi2+1 < lo)
			ack.AckRanges = append(ack.AckRanges, wire.AckRange{Smallest: lo2, Largest: hi2})
		}
		bad := vx_or(hi > last, ack.AcksPacket(skipped))
		_, err := h.ReceivedAck(ack, protocol.Encryption1RTT, now)
		if err != nil {
			var te *qerr.TransportError
			vx_assert("C06.skip.error-is-protocol-violation", errors.As(err, &te) && te.ErrorCode == qerr.ProtocolViolation)
			vx_assert("C06.skip.error-only-when-due", bad)
			vx_reach("C06.skip.rejected")
			vx_stop()
		}
		vx_assert("C06.skip.ack-for-skipped-or-unsent-rejected", !bad)
		if k == 1 {
			vx_reach("C06.skip.second-ack")
		}
		now = now.Add(time.Millisecond)
	}
}
