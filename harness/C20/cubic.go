package congestion

//vx:pkg github.com/refraction-networking/uquic/internal/congestion
//vx:entry Harness_C20_reno
//vx:param quick steps=3
//vx:param thorough steps=4
//vx:reach Harness_C20_reno C20.grew C20.cut C20.no-second-cut C20.at-minimum C20.mtu-increase C20.app-limited

import (
	"github.com/refraction-networking/uquic/internal/monotime"
	"github.com/refraction-networking/uquic/internal/protocol"
	"github.com/refraction-networking/uquic/internal/utils"
)

type vxClock struct{}

func (vxClock) Now() monotime.Time { return monotime.Now() }

// Reno (the production configuration) from an arbitrary admissible starting window, driven by the
// calls sent_packet_handler.go makes.
func Harness_C20_reno() {
	mds := protocol.ByteCount(1200)
	startPkts := [5]protocol.ByteCount{2, 3, 32, 9999, 10000}
	startCwnd := startPkts[vx_choice("startWindowPackets", 5)] * mds
	c := newCubicSender(vxClock{}, utils.NewRTTStats(), &utils.ConnectionStats{}, true, mds, startCwnd, protocol.MaxCongestionWindowPackets*mds, nil)
	if vx_bool("congestionAvoidance") {
		c.slowStartThreshold = startCwnd // as after an earlier loss
	}
	var largestSent protocol.PacketNumber = protocol.InvalidPacketNumber
	var cutAt protocol.PacketNumber = protocol.InvalidPacketNumber // ghost: largest sent at the last reduction
	nextPN := protocol.PacketNumber(vx_i64("firstPN"))
	vx_assume(nextPN >= 0 && nextPN < 1<<40)
	now := monotime.Time(3600e9)
	steps := vx_param("steps")
	check := func() {
		w := c.GetCongestionWindow()
		vx_assert("C20.window-at-least-two-packets", w >= 2*mds)
		vx_assert("C20.window-at-most-max-plus-one", w <= protocol.MaxCongestionWindowPackets*mds+mds)
		if w == 2*mds {
			vx_reach("C20.at-minimum")
		}
	}
	check()
	for step := 0; step < steps; step++ {
		now = now.Add(1e6)
		before := c.GetCongestionWindow()
		switch vx_choice("op", 5) {
		case 0: // packet sent
			pn := nextPN
			nextPN += protocol.PacketNumber(vx_range("pnGap", 1, 2))
			size := protocol.ByteCount(vx_range("size", 1, 1452))
			retrans := vx_bool("retransmittable")
			c.OnPacketSent(now, protocol.ByteCount(vx_range("inflight", 0, 1<<30)), pn, size, retrans)
			if retrans {
				largestSent = pn
			}
			vx_assert("C20.send-does-not-change-window", c.GetCongestionWindow() == before)
		case 1: // packet acknowledged
			if largestSent == protocol.InvalidPacketNumber {
				continue
			}
			pn := protocol.PacketNumber(vx_i64("ackedPN"))
			vx_assume(pn >= 0 && pn <= largestSent)
			bytes := protocol.ByteCount(vx_range("ackedBytes", 1, 1452))
			prior := protocol.ByteCount(vx_range("priorInFlight", 0, 1<<34))
			c.OnPacketAcked(pn, bytes, prior, now)
			after := c.GetCongestionWindow()
			vx_assert("C20.ack-never-shrinks", after >= before)
			if after > before {
				vx_reach("C20.grew")
				// grows only while actually window-limited (deliberately weak notion, not the code's predicate)
				limited := vx_or(prior >= before, vx_or(prior > before/2, before-prior <= 3*mds))
				vx_assert("C20.grows-only-when-window-limited", limited)
				vx_assert("C20.grows-by-at-most-one-packet", after <= before+mds)
			} else if prior < before/2 {
				vx_reach("C20.app-limited")
			}
		case 2: // packet declared lost
			if largestSent == protocol.InvalidPacketNumber {
				continue
			}
			pn := protocol.PacketNumber(vx_i64("lostPN"))
			vx_assume(pn >= 0 && pn <= largestSent)
			c.OnCongestionEvent(pn, protocol.ByteCount(vx_range("lostBytes", 1, 1452)), protocol.ByteCount(vx_range("priorInFlight", 0, 1<<34)))
			after := c.GetCongestionWindow()
			vx_assert("C20.loss-never-grows", after <= before)
			if cutAt != protocol.InvalidPacketNumber && pn <= cutAt {
				vx_reach("C20.no-second-cut")
				vx_assert("C20.one-reduction-per-window", after == before)
			}
			if after < before {
				vx_reach("C20.cut")
				cutAt = largestSent
			} else if pn > cutAt || cutAt == protocol.InvalidPacketNumber {
				// a loss of a packet sent after the last reduction starts a new epoch even if the window is already minimal
				cutAt = largestSent
			}
		case 3:
			c.MaybeExitSlowStart()
			vx_assert("C20.exit-slow-start-keeps-window", c.GetCongestionWindow() == before)
		case 4: // path MTU discovery raised the datagram size
			if mds == 1200 {
				mds = 1452
				c.SetMaxDatagramSize(mds)
				vx_reach("C20.mtu-increase")
			}
		}
		check()
	}
}
