package ackhandler

//vx:pkg github.com/refraction-networking/uquic/internal/ackhandler
//vx:entry Harness_C20_gating
//vx:param quick steps=4
//vx:param thorough steps=5
//vx:param all maxdepth=2000
//vx:reach Harness_C20_gating C20.gate.any C20.gate.congestion-limited C20.gate.probe C20.gate.sent C20.gate.acked

import (
	"time"

	"github.com/refraction-networking/uquic/internal/monotime"
	"github.com/refraction-networking/uquic/internal/protocol"
	"github.com/refraction-networking/uquic/internal/utils"
	"github.com/refraction-networking/uquic/internal/wire"
)

// "New ack-eliciting data is released only while the bytes in flight are below the window (probe packets
// and pure ACKs excepted)": the real sentPacketHandler with its real Reno sender and pacer, the caller sends what SendMode allows (as connection.sendPackets does), packets
// are acknowledged, the loss-detection timer fires. Whenever SendMode authorises new ack-eliciting data
// (SendAny), or defers it only for pacing (SendPacingLimited), bytes in flight are below the window.
func Harness_C20_gating() {
	rtt := utils.NewRTTStats()
	sph := NewSentPacketHandler(0, 1200, rtt, &utils.ConnectionStats{}, true, false, nil, protocol.PerspectiveClient, nil, utils.DefaultLogger)
	h := sph.(*sentPacketHandler)
	h.DropPackets(protocol.EncryptionInitial, 0)
	h.DropPackets(protocol.EncryptionHandshake, 0)
	h.appDataPackets.pns = newSequentialPacketNumberGenerator(0) // number skipping is C06's subject
	now := monotime.Time(3600e9)
	var sent [48]protocol.PacketNumber
	nsent := 0
	steps := vx_param("steps")
	for step := 0; step < steps; step++ {
		now = now.Add(time.Duration(vx_concrete_u64(uint64([2]time.Duration{20 * time.Millisecond, 2 * time.Second}[vx_choice("dt", 2)]))))
		mode := h.SendMode(now)
		cwnd := h.congestion.GetCongestionWindow()
		switch mode {
		case SendAny, SendPacingLimited:
			vx_reach("C20.gate.any")
			vx_assert("C20.gate.new-data-only-below-window", h.bytesInFlight < cwnd)
		case SendAck:
			vx_reach("C20.gate.congestion-limited")
		case SendPTOAppData:
			vx_reach("C20.gate.probe")
		}
		if h.numProbesToSend == 0 && h.bytesInFlight >= cwnd {
			vx_assert("C20.gate.window-full-blocks-new-data", mode == SendAck || mode == SendNone)
		}
		switch vx_choice("op", 3) {
		case 0: // the connection sends what the mode allows: a burst of ack-eliciting packets while SendAny
			burst := int(vx_concrete_u64(uint64([2]int{2, 16}[vx_choice("burst", 2)])))
			size := protocol.ByteCount(1200)
			for i := 0; i < burst && nsent < len(sent); i++ {
				m := h.SendMode(now)
				if m == SendAck {
					vx_reach("C20.gate.congestion-limited")
				}
				if m != SendAny && m != SendPTOAppData {
					break
				}
				if m == SendAny {
					vx_assert("C20.gate.each-packet-below-window", h.bytesInFlight < h.congestion.GetCongestionWindow())
				}
				pn := h.PopPacketNumber(protocol.Encryption1RTT)
				h.SentPacket(now, pn, protocol.InvalidPacketNumber, nil, []Frame{{Frame: &wire.PingFrame{}}}, protocol.Encryption1RTT, protocol.ECNNon, size, false, false)
				sent[nsent] = pn
				nsent++
				vx_reach("C20.gate.sent")
			}
		case 1: // the first k packets sent so far are acknowledged
			if nsent == 0 {
				continue
			}
			k := 0
			if vx_bool("ackAll") {
				k = nsent - 1
			}
			_, err := h.ReceivedAck(&wire.AckFrame{AckRanges: []wire.AckRange{{Smallest: sent[0], Largest: sent[k]}}}, protocol.Encryption1RTT, now)
			if err == nil {
				vx_reach("C20.gate.acked")
			}
		case 2: // loss-detection timer
			if !h.GetLossDetectionTimeout().IsZero() {
				_ = h.OnLossDetectionTimeout(now)
			}
		}
	}
}
