package congestion

//vx:pkg github.com/refraction-networking/uquic/internal/congestion
//vx:entry Harness_C20_pacer
//vx:solver cvc5-int
//vx:param quick sends=2
//vx:param thorough sends=3
//vx:reach Harness_C20_pacer C20.pacer.sent C20.pacer.idle C20.pacer.overflow-guard

import (
	"github.com/refraction-networking/uquic/internal/monotime"
	"github.com/refraction-networking/uquic/internal/protocol"
)

// The pacer as a token bucket, checked through its API only. The facts below are inductive: from them
// "no more than one burst plus 1.25*bandwidth*elapsed over any interval" follows by telescoping.
//   (i)   the budget never exceeds one burst;
//   (ii)  between two sends the budget grows by at most 1.25*bw*dt (rounded down), never wraps;
//   (iii) a send of n bytes lowers the budget by n (to zero if it was smaller), whatever was accrued while idle.
func Harness_C20_pacer() {
	// the bandwidth estimate is one of a lattice of magnitudes (so that bw is constant per path and the
	// solver only has to multiply by a constant); time deltas and sizes are fully symbolic
	bws := [6]uint64{8, 8e3, 8e6, 8e9, 8e12, 1 << 59}
	bw := bws[vx_choice("bandwidthClass", 6)]
	p := newPacer(func() Bandwidth { return Bandwidth(bw) })
	mds := initialMaxDatagramSize
	bytesPerSec := bw / 8
	rate := bytesPerSec * 5 / 4 // the pacer's own 1.25x
	burst := p.maxBurstSize()
	now := monotime.Time(vx_i64("t0"))
	vx_assume(now > 0 && now < 1<<55)
	vx_assert("C20.pacer.initial-budget-is-one-burst", p.Budget(now) == burst)
	sends := vx_param("sends")
	for i := 0; i < sends; i++ {
		// send a packet
		b0 := p.Budget(now)
		vx_assert("C20.pacer.budget-at-most-one-burst", b0 <= burst)
		size := protocol.ByteCount(vx_range("size", 1, int(mds)))
		p.SentPacket(now, size)
		vx_reach("C20.pacer.sent")
		b1 := p.Budget(now)
		want := protocol.ByteCount(0)
		if b0 > size {
			want = b0 - size
		}
		vx_assert("C20.pacer.send-consumes-its-size", b1 == want)
		// time passes
		dt := vx_i64("dt")
		vx_assume(dt >= 0 && dt < 1<<55)
		if dt > 1e9 {
			vx_reach("C20.pacer.idle")
		}
		now = now.Add(monotime.Time(dt).Sub(0))
		b2 := p.Budget(now)
		vx_assert("C20.pacer.budget-at-most-one-burst-after-idle", b2 <= burst)
		vx_assert("C20.pacer.budget-never-decreases-while-idle", b2 >= b1)
		// accrual bound: b2 <= b1 + rate*dt/1e9, computed without overflow by case split
		if rate != 0 && uint64(dt) <= (1<<63)/rate {
			vx_assert("C20.pacer.accrual-at-most-1.25-bw-dt", uint64(b2) <= uint64(b1)+rate*uint64(dt)/1e9)
		} else {
			vx_reach("C20.pacer.overflow-guard")
		}
	}
}
