package handshake

//vx:pkg github.com/refraction-networking/uquic/internal/handshake
//vx:entry Harness_C05_keyupdate
//vx:stub github.com/refraction-networking/uquic/internal/handshake.createAEAD = vxCreateAEAD
//vx:stub github.com/refraction-networking/uquic/internal/handshake.hkdfExpandLabel = vxHKDF
//vx:stub github.com/refraction-networking/uquic/internal/handshake.newHeaderProtector = vxNoHP
//vx:param all maxdepth=3000
//vx:param quick steps=5
//vx:param thorough steps=7
//vx:reach Harness_C05_keyupdate C05.ku.opened C05.ku.local-update C05.ku.peer-update-accepted C05.ku.too-quick C05.ku.old-phase-opened C05.ku.keys-dropped C05.ku.wrong-key-rejected C05.ku.acked

import (
	"crypto"
	"crypto/tls"
	"errors"
	"time"

	"github.com/refraction-networking/uquic/internal/monotime"
	"github.com/refraction-networking/uquic/internal/protocol"
	"github.com/refraction-networking/uquic/internal/qerr"
	"github.com/refraction-networking/uquic/internal/utils"
)

// Engine-side stand-ins for the cryptography (natively the real HKDF/AES-GCM run): a traffic secret is
// identified by its first byte, "quic ku" derivation increments it, and the AEAD is an authenticated
// pass-through whose tag binds the key generation and the nonce.
type vxKUAEAD struct{ gen byte }

func (vxKUAEAD) NonceSize() int { return 12 }
func (vxKUAEAD) Overhead() int  { return 16 }
func (a vxKUAEAD) Seal(dst, nonce, plaintext, ad []byte) []byte {
	dst = append(dst, plaintext...)
	var tag [16]byte
	tag[0] = a.gen
	copy(tag[1:9], nonce[4:12])
	tag[9] = byte(len(ad))
	return append(dst, tag[:]...)
}

var vxErrOpen = errors.New("vx: message authentication failed")

func (a vxKUAEAD) Open(dst, nonce, ciphertext, ad []byte) ([]byte, error) {
	if len(ciphertext) < 16 {
		return nil, vxErrOpen
	}
	tag := ciphertext[len(ciphertext)-16:]
	if tag[0] != a.gen || string(tag[1:9]) != string(nonce[4:12]) || tag[9] != byte(len(ad)) {
		return nil, vxErrOpen
	}
	return append(dst, ciphertext[:len(ciphertext)-16]...), nil
}

func vxCreateAEAD(suite cipherSuite, trafficSecret []byte, v protocol.Version) *xorNonceAEAD {
	return &xorNonceAEAD{aead: vxKUAEAD{gen: trafficSecret[0]}}
}

func vxHKDF(hash crypto.Hash, secret, context []byte, label string, length int) []byte {
	out := make([]byte, length)
	out[0] = secret[0] + 1
	return out
}

func vxNoHP(suite cipherSuite, trafficSecret []byte, isLongHeader bool, v protocol.Version) headerProtector {
	return nil
}

type vxKUPacket struct {
	pn      protocol.PacketNumber
	kp      protocol.KeyPhaseBit
	gen     int // the sender's key phase (full counter) when it was sealed
	payload [2]byte
	data    []byte
}

// Two updatableAEADs facing each other (the endpoint under test "a" and its peer), short intervals so that
// both initiate updates; the peer's packets are delivered in any order, possibly late; the peer may also
// be made to update prematurely. Checked on a: what opens is the sent payload and was sealed in the previous,
// current or next key phase; a peer's update is accepted only once a has sent in its own current phase
// (KEY_UPDATE_ERROR otherwise); packets of the old phase are not accepted above the first packet of the
// new one; a itself initiates an update only after the handshake is confirmed and (beyond the first) after
// a packet of the current phase was acknowledged.
func Harness_C05_keyupdate() {
	FirstKeyUpdateInterval = 1
	keyUpdateInterval.Store(1)
	suite := getCipherSuite(tls.TLS_AES_128_GCM_SHA256)
	cs, ss := make([]byte, 32), make([]byte, 32)
	cs[0], ss[0] = 10, 110
	rtt := utils.NewRTTStats()
	a := newUpdatableAEAD(rtt, nil, utils.DefaultLogger, protocol.Version1)
	peer := newUpdatableAEAD(utils.NewRTTStats(), nil, utils.DefaultLogger, protocol.Version1)
	a.SetReadKey(suite, ss)
	a.SetWriteKey(suite, cs)
	peer.SetReadKey(suite, cs)
	peer.SetWriteKey(suite, ss)
	peer.SetHandshakeConfirmed()
	ad := []byte{0x40, 1, 2}
	now := monotime.Time(3600e9)
	var inFlight [4]*vxKUPacket
	nFlight := 0
	peerPN, aPN := protocol.PacketNumber(0), protocol.PacketNumber(0)
	evil := false
	ackedInPhase := false // ghost: a packet a sent in its current phase has been acknowledged
	sentInPhase := false  // ghost: a has sent a packet in its current phase
	firstRcvdInPhase := protocol.InvalidPacketNumber
	peerSeal := func() *vxKUPacket {
		p := &vxKUPacket{pn: peerPN}
		peerPN++
		if !evil {
			p.kp = peer.KeyPhase() // an honest peer updates when its own rules say so
		} else {
			p.kp = peer.keyPhase.Bit()
		}
		p.gen = int(peer.keyPhase)
		p.payload = [2]byte{vx_u8("payload"), vx_u8("payload")}
		p.data = peer.Seal(nil, p.payload[:], p.pn, ad)
		return p
	}
	deliver := func(p *vxKUPacket) {
		before := int(a.keyPhase)
		dec, err := a.Open(nil, p.data, now, p.pn, p.kp, ad)
		after := int(a.keyPhase)
		if err != nil {
			vx_assert("C05.ku.phase-unchanged-on-error", after == before)
			var te *qerr.TransportError
			switch {
			case errors.As(err, &te):
				vx_assert("C05.ku.transport-error-is-key-update-error", te.ErrorCode == qerr.KeyUpdateError)
				vx_assert("C05.ku.too-quick-only-when-due", p.gen == before+1 && before > 0 && !sentInPhase)
				vx_reach("C05.ku.too-quick")
			case err == ErrKeysDropped:
				vx_reach("C05.ku.keys-dropped")
			default:
				vx_assert("C05.ku.other-error-is-decryption-failed", err == ErrDecryptionFailed)
				if p.gen != before {
					vx_reach("C05.ku.wrong-key-rejected")
				}
			}
			return
		}
		vx_reach("C05.ku.opened")
		vx_assert("C05.ku.payload-intact", len(dec) == 2 && dec[0] == p.payload[0] && dec[1] == p.payload[1])
		vx_assert("C05.ku.only-adjacent-key-phases-open", p.gen >= before-1 && p.gen <= before+1)
		switch {
		case p.gen == before+1:
			vx_reach("C05.ku.peer-update-accepted")
			vx_assert("C05.ku.peer-update-rolls-keys", after == before+1)
			vx_assert("C05.ku.peer-update-not-accepted-before-own-packet-sent", before == 0 || sentInPhase)
			sentInPhase, ackedInPhase = false, false
			firstRcvdInPhase = p.pn
		case p.gen == before-1:
			vx_reach("C05.ku.old-phase-opened")
			vx_assert("C05.ku.phase-unchanged", after == before)
			vx_assert("C05.ku.old-phase-only-below-first-of-new-phase", firstRcvdInPhase == protocol.InvalidPacketNumber || p.pn < firstRcvdInPhase)
		default:
			vx_assert("C05.ku.phase-unchanged", after == before)
			if firstRcvdInPhase == protocol.InvalidPacketNumber {
				firstRcvdInPhase = p.pn
			}
		}
	}
	steps := vx_param("steps")
	for step := 0; step < steps; step++ {
		switch vx_choice("op", 6) {
		case 0: // the peer sends a packet; it is held by the network
			if nFlight < len(inFlight) {
				inFlight[nFlight] = peerSeal()
				nFlight++
			}
		case 1: // the network delivers one of the held packets
			if nFlight == 0 {
				continue
			}
			deliver(inFlight[int(vx_concrete_u64(uint64(vx_choice("which", nFlight))))])
		case 2: // a sends a packet (delivered to the peer at once)
			before := int(a.keyPhase)
			kp := a.KeyPhase()
			if int(a.keyPhase) != before {
				vx_reach("C05.ku.local-update")
				vx_assert("C05.ku.local-update-by-one", int(a.keyPhase) == before+1)
				vx_assert("C05.ku.no-update-before-handshake-confirmed", a.handshakeConfirmed)
				vx_assert("C05.ku.no-second-update-before-ack-in-current-phase", before == 0 || ackedInPhase)
				sentInPhase, ackedInPhase = false, false
				firstRcvdInPhase = protocol.InvalidPacketNumber
			}
			data := a.Seal(nil, []byte{7, 7}, aPN, ad)
			sentInPhase = true
			_, perr := peer.Open(nil, data, now, aPN, kp, ad)
			vx_assert("C05.ku.honest-peer-opens-own-packets", evil || perr == nil)
			aPN++
		case 3: // the peer acknowledges everything a sent, in a packet that arrives at once
			if aPN == 0 || evil {
				continue
			}
			deliver(peerSeal())
			err := a.SetLargestAcked(aPN - 1)
			vx_assert("C05.ku.honest-ack-accepted", err == nil)
			if a.firstSentWithCurrentKey != protocol.InvalidPacketNumber && aPN-1 >= a.firstSentWithCurrentKey {
				ackedInPhase = true
				vx_reach("C05.ku.acked")
			}
		case 4: // the peer misbehaves: it updates its keys regardless of the rules
			peer.rollKeys()
			evil = true
		case 5: // the handshake is confirmed / time passes
			if vx_bool("confirm") {
				a.SetHandshakeConfirmed()
			} else {
				now = now.Add(10 * time.Second)
			}
		}
	}
}
