package handshake

//vx:pkg github.com/refraction-networking/uquic/internal/handshake
//vx:entry Harness_C05_recv_pn Harness_C05_chacha_hp Harness_C05_aes_hp
//vx:stub golang.org/x/crypto/chacha20.NewUnauthenticatedCipher = vxNewCipher
//vx:stub golang.org/x/crypto/chacha20.Cipher.SetCounter = vxSetCounter
//vx:stub golang.org/x/crypto/chacha20.Cipher.XORKeyStream = vxXORKeyStream
//vx:param quick opens=3
//vx:param thorough opens=4
//vx:reach Harness_C05_recv_pn C05.rcv.in-order C05.rcv.late C05.rcv.decoded
//vx:reach Harness_C05_chacha_hp C05.hp.chacha-long C05.hp.chacha-short C05.hp.pn4
//vx:reach Harness_C05_aes_hp C05.hp.aes

import (
	"github.com/refraction-networking/uquic/internal/protocol"
	"github.com/refraction-networking/uquic/internal/utils"
	"golang.org/x/crypto/chacha20"
)

// ideal AEAD standing in for AES-GCM/ChaCha20-Poly1305: Seal appends a 16-byte tag, Open strips it
type vxAEAD struct{}

func (vxAEAD) NonceSize() int { return 12 }
func (vxAEAD) Overhead() int  { return 16 }
func (vxAEAD) Seal(dst, nonce, plaintext, ad []byte) []byte {
	return append(append(dst, plaintext...), make([]byte, 16)...)
}
func (vxAEAD) Open(dst, nonce, ciphertext, ad []byte) ([]byte, error) {
	return append(dst, ciphertext[:len(ciphertext)-16]...), nil
}

// 1-RTT receiver: packets opened in any order; each next packet uses any encoding length whose window
// (RFC 9000 A.3) contains it relative to the largest number opened so far: it decodes to the true number.
func Harness_C05_recv_pn() {
	a := newUpdatableAEAD(utils.NewRTTStats(), nil, utils.DefaultLogger, protocol.Version1)
	a.rcvAEAD = vxAEAD{}
	a.nonceBuf = make([]byte, 12)
	highest := protocol.PacketNumber(0) // ghost: largest packet number opened so far
	opens := vx_param("opens")
	for i := 0; i < opens; i++ {
		pn := protocol.PacketNumber(vx_i64("pn"))
		vx_assume(pn >= 0 && pn < 1<<61)
		l := protocol.PacketNumberLen(vx_range("pnLen", 1, 4))
		win := protocol.PacketNumber(1) << (8 * uint(l))
		expected := highest + 1
		// the sender's choice of length guarantees the number lies inside the decoding window
		vx_assume(pn > expected-win/2 && pn <= expected+win/2-1)
		if pn > highest {
			vx_reach("C05.rcv.in-order")
		} else {
			vx_reach("C05.rcv.late")
		}
		decoded := a.DecodePacketNumber(pn&(win-1), l)
		vx_reach("C05.rcv.decoded")
		vx_assert("C05.rcv.decodes-to-true-number", decoded == pn)
		_, err := a.Open(nil, make([]byte, 20), 1, decoded, protocol.KeyPhaseZero, nil)
		vx_assert("C05.rcv.opened", err == nil)
		if pn > highest {
			highest = pn
		}
	}
}

// --- ChaCha20 header protection: the keystream is an uninterpreted function of the sample (engine:
// stubs below; natively the real cipher runs). A protector that has been used before must produce the
// same mask as a fresh one, and applying it twice restores the header.
var vxKeystreams [3][]byte
var vxCurrent int

func vxNewCipher(key, nonce []byte) (*chacha20.Cipher, error) {
	vxCurrent = int(nonce[0]) // the harness pins byte 4 of each sample to 1 or 2
	return &chacha20.Cipher{}, nil
}
func vxSetCounter(c *chacha20.Cipher, counter uint32) {}
func vxXORKeyStream(c *chacha20.Cipher, dst, src []byte) {
	ks := vxKeystreams[vxCurrent]
	for i := range src {
		dst[i] = src[i] ^ ks[i]
	}
}

func Harness_C05_chacha_hp() {
	long := vx_bool("longHeader")
	if long {
		vx_reach("C05.hp.chacha-long")
	} else {
		vx_reach("C05.hp.chacha-short")
	}
	var key [32]byte
	copy(key[:], vx_bytesN("key", 32))
	vxKeystreams[1] = vx_bytesN("keystream1", 5)
	vxKeystreams[2] = vx_bytesN("keystream2", 5)
	used := &chachaHeaderProtector{key: key, isLongHeader: long}
	fresh := &chachaHeaderProtector{key: key, isLongHeader: long}
	s1, s2 := vx_bytesN("sample1", 16), vx_bytesN("sample2", 16)
	s1[4], s2[4] = 1, 2
	pnLen := vx_range("pnLen", 1, 4)
	pnLen = int(vx_concrete_u64(uint64(pnLen)))
	if pnLen == 4 {
		vx_reach("C05.hp.pn4")
	}
	// first packet on the reused protector
	fb0 := vx_u8("firstByte0")
	h0 := vx_bytesN("pnBytes0", 4)
	used.EncryptHeader(s1, &fb0, h0)
	// second packet
	fb := vx_u8("firstByte")
	orig := vx_bytesN("pnBytes", pnLen)
	h1 := append([]byte{}, orig...)
	h2 := append([]byte{}, orig...)
	fb1, fb2 := fb, fb
	used.EncryptHeader(s2, &fb1, h1)
	fresh.EncryptHeader(s2, &fb2, h2)
	vx_assert("C05.hp.mask-independent-of-earlier-packets", fb1 == fb2 && string(h1) == string(h2))
	if long {
		vx_assert("C05.hp.long-header-protects-low-4-bits-only", fb1&0xf0 == fb&0xf0)
	} else {
		vx_assert("C05.hp.short-header-protects-low-5-bits-only", fb1&0xe0 == fb&0xe0)
	}
	// the receiver removes it with the same sample
	fresh.DecryptHeader(s2, &fb1, h1)
	vx_assert("C05.hp.roundtrip", fb1 == fb && string(h1) == string(orig))
}

type vxBlock struct{}

func (vxBlock) BlockSize() int { return 16 }
func (vxBlock) Encrypt(dst, src []byte) {
	for i := range src {
		dst[i] = src[i] ^ 0x5a
	}
}
func (vxBlock) Decrypt(dst, src []byte) {}

func Harness_C05_aes_hp() {
	vx_reach("C05.hp.aes")
	long := vx_bool("longHeader")
	p := &aesHeaderProtector{block: vxBlock{}, isLongHeader: long}
	sample := vx_bytesN("sample", 16)
	pnLen := int(vx_concrete_u64(uint64(vx_range("pnLen", 1, 4))))
	fb := vx_u8("firstByte")
	orig := vx_bytesN("pnBytes", pnLen)
	h := append([]byte{}, orig...)
	f := fb
	p.EncryptHeader(sample, &f, h)
	if long {
		vx_assert("C05.hp.aes-long-low-4-bits-only", f&0xf0 == fb&0xf0)
	} else {
		vx_assert("C05.hp.aes-short-low-5-bits-only", f&0xe0 == fb&0xe0)
	}
	for i := 0; i < pnLen; i++ {
		vx_assert("C05.hp.aes-mask-bytes-in-order", h[i] == orig[i]^(sample[i+1]^0x5a))
	}
	p.DecryptHeader(sample, &f, h)
	vx_assert("C05.hp.aes-roundtrip", f == fb && string(h) == string(orig))
}
