package protocol

//vx:pkg github.com/refraction-networking/uquic/internal/protocol
//vx:entry Harness_C05_pn
//vx:reach Harness_C05_pn C05.pn.len2 C05.pn.len3 C05.pn.len4 C05.pn.nothing-acked

// For every packet number, everything the sender may know to be acknowledged and every state of the
// receiver consistent with that: the truncated number on the wire decodes to the true one.
// RFC 9000 A.2 precondition (necessary: without it the 4-byte window can be exceeded): fewer than 2^31
// packets are unacknowledged.
func Harness_C05_pn() {
	pn := PacketNumber(vx_i64("pn"))
	la := PacketNumber(vx_i64("largestAcked"))
	lr := PacketNumber(vx_i64("largestReceivedByPeer"))
	vx_assume(pn >= 0 && pn < 1<<62)
	vx_assume(la >= -1 && la < pn)
	vx_assume(pn-la < 1<<31)
	// the peer has received everything it acknowledged, and nothing at or above pn yet
	lo := la
	if lo < 0 {
		lo = 0
		vx_reach("C05.pn.nothing-acked")
	}
	vx_assume(lr >= lo && (lr < pn || (pn == 0 && lr == 0)))
	l := PacketNumberLengthForHeader(pn, la)
	switch l {
	case PacketNumberLen2:
		vx_reach("C05.pn.len2")
	case PacketNumberLen3:
		vx_reach("C05.pn.len3")
	case PacketNumberLen4:
		vx_reach("C05.pn.len4")
	}
	vx_assert("C05.pn.length-valid", l >= 1 && l <= 4)
	truncated := pn & (PacketNumber(1)<<(8*uint(l)) - 1)
	vx_assert("C05.pn.truncated-decodes-to-true-number", DecodePacketNumber(l, lr, truncated) == pn)
}
