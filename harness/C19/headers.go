package http3

//vx:pkg github.com/refraction-networking/uquic/http3
//vx:entry Harness_C19_parse
//vx:param all maxdepth=3000
//vx:param quick fields=2 freelen=1 values=6
//vx:param thorough fields=2 freelen=1 values=9
//vx:reach Harness_C19_parse C19.accepted C19.rejected C19.accepted-pseudo C19.accepted-content-length C19.free-name C19.free-value

import (
	"io"

	"github.com/quic-go/qpack"
)

var vxNames = []string{":method", ":path", ":scheme", ":authority", ":status", ":protocol", ":unknown", "content-length", "te", "connection", "keep-alive", "proxy-connection", "transfer-encoding", "upgrade", "cookie", "x-a", "Accept"}
var vxValues = []string{"", "42", "GET", "trailers", "200", "a\r\nb", "7", "/", "https", "gzip"}

func vxIsTChar(c byte) bool {
	switch {
	case c >= '0' && c <= '9', c >= 'a' && c <= 'z', c >= 'A' && c <= 'Z':
		return true
	}
	switch c {
	case '!', '#', '$', '%', '&', '\'', '*', '+', '-', '.', '^', '_', '`', '|', '~':
		return true
	}
	return false
}

// reference predicate written from RFC 9114 sections 4.2 and 4.3 (not from the code)
func vxValidFieldSection(fs []qpack.HeaderField, isRequest bool, limit int) bool {
	seenRegular := false
	seen := map[string]bool{}
	cl, haveCL := "", false
	size := 0
	for _, f := range fs {
		size += len(f.Name) + len(f.Value) + 32
		if size > limit {
			return false
		}
		if len(f.Name) == 0 {
			return false
		}
		for i := 0; i < len(f.Name); i++ {
			if f.Name[i] >= 'A' && f.Name[i] <= 'Z' {
				return false
			}
		}
		for i := 0; i < len(f.Value); i++ {
			c := f.Value[i]
			if (c < 0x20 && c != '\t') || c == 0x7f {
				return false
			}
		}
		if f.Name[0] == ':' {
			if seenRegular || seen[f.Name] {
				return false
			}
			seen[f.Name] = true
			switch f.Name {
			case ":method", ":path", ":scheme", ":authority", ":protocol":
				if !isRequest {
					return false
				}
			case ":status":
				if isRequest {
					return false
				}
			default:
				return false
			}
			continue
		}
		seenRegular = true
		for i := 0; i < len(f.Name); i++ {
			if !vxIsTChar(f.Name[i]) {
				return false
			}
		}
		switch f.Name {
		case "connection", "keep-alive", "proxy-connection", "transfer-encoding", "upgrade":
			return false
		case "te":
			if f.Value != "trailers" {
				return false
			}
		case "content-length":
			if haveCL && cl != f.Value {
				return false
			}
			cl, haveCL = f.Value, true
		}
	}
	if haveCL {
		if len(cl) == 0 {
			return true // an empty Content-Length is treated as absent (it is not handed to net/http)
		}
		if len(cl) > 18 {
			return false
		}
		for i := 0; i < len(cl); i++ {
			if cl[i] < '0' || cl[i] > '9' {
				return false
			}
		}
	}
	return true
}

func vxField(freelen int) qpack.HeaderField {
	var f qpack.HeaderField
	if vx_bool("freeName") {
		vx_reach("C19.free-name")
		n := int(vx_concrete_u64(uint64(vx_range("nameLen", 1, freelen))))
		nb := vx_bytesN("name", n)
		for _, c := range nb {
			vx_assume(c < 0x80) // non-ASCII names (unicode tables) are outside the claim
		}
		f.Name = string(nb)
	} else {
		f.Name = vxNames[int(vx_concrete_u64(uint64(vx_choice("nameIdx", len(vxNames)))))]
	}
	if vx_bool("freeValue") {
		vx_reach("C19.free-value")
		n := int(vx_concrete_u64(uint64(vx_range("valueLen", 0, freelen))))
		vb := vx_bytesN("value", n)
		for _, c := range vb {
			vx_assume(c < 0x80)
		}
		f.Value = string(vb)
	} else {
		f.Value = vxValues[int(vx_concrete_u64(uint64(vx_choice("valueIdx", vx_param("values")))))]
	}
	return f
}

// Any short sequence of fields (names/values from a dictionary of the interesting ones, or free byte
// strings): whatever parseHeaders accepts satisfies the reference predicate, and the accepted values
// are handed on unchanged.
func Harness_C19_parse() {
	n := vx_range("fields", 1, vx_param("fields"))
	fs := make([]qpack.HeaderField, n)
	for i := range fs {
		fs[i] = vxField(vx_param("freelen"))
	}
	isRequest := vx_bool("isRequest")
	limit := 200
	i := 0
	decode := func() (qpack.HeaderField, error) {
		if i >= len(fs) {
			return qpack.HeaderField{}, io.EOF
		}
		i++
		return fs[i-1], nil
	}
	hdr, err := parseHeaders(decode, isRequest, limit, nil)
	if err != nil {
		vx_reach("C19.rejected")
		return
	}
	vx_reach("C19.accepted")
	vx_assert("C19.accepted-section-is-well-formed", vxValidFieldSection(fs, isRequest, limit))
	for _, f := range fs {
		switch f.Name {
		case ":method":
			vx_reach("C19.accepted-pseudo")
			vx_assert("C19.method-unchanged", hdr.Method == f.Value)
		case ":path":
			vx_assert("C19.path-unchanged", hdr.Path == f.Value)
		case ":authority":
			vx_assert("C19.authority-unchanged", hdr.Authority == f.Value)
		case ":status":
			vx_assert("C19.status-unchanged", hdr.Status == f.Value)
		case "content-length":
			vx_reach("C19.accepted-content-length")
			if f.Value == "" {
				vx_assert("C19.empty-content-length-dropped", len(hdr.Headers["Content-Length"]) == 0 && hdr.ContentLength == -1)
			} else {
				vx_assert("C19.content-length-single-valued", len(hdr.Headers["Content-Length"]) == 1 && hdr.Headers["Content-Length"][0] == f.Value && hdr.ContentLength >= 0)
			}
		}
	}
}
