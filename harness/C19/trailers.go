package http3

//vx:pkg github.com/refraction-networking/uquic/http3
//vx:entry Harness_C19_trailers
//vx:param all maxdepth=3000
//vx:param quick fields=2 freelen=1 values=6
//vx:param thorough fields=2 freelen=1 values=9
//vx:reach Harness_C19_trailers C19.tr.accepted C19.tr.rejected C19.tr.free-name C19.tr.two-values

import (
	"io"
	"net/textproto"

	"github.com/quic-go/qpack"
)

var vxTrailerNames = []string{"x-a", "grpc-status", ":status", ":path", ":unknown", "content-length", "transfer-encoding", "trailer", "host", "te", "connection", "keep-alive", "upgrade", "if-match", "authorization", "Accept"}

// reference predicate for a trailer section (RFC 9114 4.2, 4.3: no pseudo-header fields; RFC 9110 6.5.1:
// no fields needed for framing, routing, request modifiers, authentication or content handling)
func vxValidTrailerSection(fs []qpack.HeaderField, limit int) bool {
	size := 0
	for _, f := range fs {
		size += len(f.Name) + len(f.Value) + 32
		if size > limit || len(f.Name) == 0 || f.Name[0] == ':' {
			return false
		}
		for i := 0; i < len(f.Name); i++ {
			if (f.Name[i] >= 'A' && f.Name[i] <= 'Z') || !vxIsTChar(f.Name[i]) {
				return false
			}
		}
		for i := 0; i < len(f.Value); i++ {
			c := f.Value[i]
			if (c < 0x20 && c != '\t') || c == 0x7f {
				return false
			}
		}
		switch f.Name {
		case "connection", "keep-alive", "proxy-connection", "transfer-encoding", "upgrade", "te",
			"content-length", "trailer", "host", "authorization":
			return false
		}
		if len(f.Name) >= 3 && f.Name[:3] == "if-" {
			return false
		}
	}
	return true
}

var vxTrailerValues = []string{"1", "", "a\r\nb"}

func vxTrailerField(freelen int) qpack.HeaderField {
	var f qpack.HeaderField
	k := int(vx_concrete_u64(uint64(vx_choice("trailerNameIdx", len(vxTrailerNames)+1))))
	if k == len(vxTrailerNames) {
		vx_reach("C19.tr.free-name")
		n := int(vx_concrete_u64(uint64(vx_range("nameLen", 1, freelen))))
		nb := vx_bytesN("name", n)
		for _, c := range nb {
			vx_assume(c < 0x80) // non-ASCII names (unicode tables) are outside the claim
		}
		f.Name = string(nb)
	} else {
		f.Name = vxTrailerNames[k]
	}
	v := int(vx_concrete_u64(uint64(vx_choice("trailerValueIdx", len(vxTrailerValues)+1))))
	if v == len(vxTrailerValues) {
		n := int(vx_concrete_u64(uint64(vx_range("valueLen", 1, freelen))))
		vb := vx_bytesN("value", n)
		for _, c := range vb {
			vx_assume(c < 0x80)
		}
		f.Value = string(vb)
	} else {
		f.Value = vxTrailerValues[v]
	}
	return f
}

// Trailer sections: whatever parseTrailers accepts satisfies the reference predicate, and every accepted
// field is handed on under its canonical name with its value unchanged, in order.
func Harness_C19_trailers() {
	n := vx_range("fields", 1, vx_param("fields"))
	fs := make([]qpack.HeaderField, n)
	for i := range fs {
		fs[i] = vxTrailerField(vx_param("freelen"))
	}
	limit := 200
	i := 0
	decode := func() (qpack.HeaderField, error) {
		if i >= len(fs) {
			return qpack.HeaderField{}, io.EOF
		}
		i++
		return fs[i-1], nil
	}
	h, err := parseTrailers(decode, limit, nil)
	if err != nil {
		vx_reach("C19.tr.rejected")
		return
	}
	vx_reach("C19.tr.accepted")
	vx_assert("C19.tr.accepted-section-is-well-formed", vxValidTrailerSection(fs, limit))
	total := 0
	for _, vs := range h {
		total += len(vs)
	}
	vx_assert("C19.tr.nothing-added-or-dropped", total == len(fs))
	if len(fs) == 2 && textproto.CanonicalMIMEHeaderKey(fs[0].Name) == textproto.CanonicalMIMEHeaderKey(fs[1].Name) {
		vx_reach("C19.tr.two-values")
		vs := h[textproto.CanonicalMIMEHeaderKey(fs[0].Name)]
		vx_assert("C19.tr.values-in-order", len(vs) == 2 && vs[0] == fs[0].Value && vs[1] == fs[1].Value)
	} else {
		for _, f := range fs {
			vs := h[textproto.CanonicalMIMEHeaderKey(f.Name)]
			vx_assert("C19.tr.value-unchanged", len(vs) == 1 && vs[0] == f.Value)
		}
	}
}
