package quic

//vx:pkg github.com/refraction-networking/uquic
//vx:entry Harness_C03_stream
//vx:param quick steps=3 maxlen=3000 maxread=3000
//vx:param thorough steps=3 maxlen=6000 maxread=6000
//vx:reach Harness_C03_stream C03.s.read-data C03.s.eof C03.s.deadline C03.s.final-size-error C03.s.flow-control-error C03.s.reset-error C03.s.reset

import (
	"errors"
	"io"
	"time"

	"github.com/refraction-networking/uquic/internal/flowcontrol"
	"github.com/refraction-networking/uquic/internal/protocol"
	"github.com/refraction-networking/uquic/internal/qerr"
	"github.com/refraction-networking/uquic/internal/utils"
	"github.com/refraction-networking/uquic/internal/wire"
)

type vxRecvSender struct{ completed int }

func (s *vxRecvSender) onHasConnectionData()                                            {}
func (s *vxRecvSender) onHasStreamData(protocol.StreamID, *SendStream)                  {}
func (s *vxRecvSender) onHasStreamControlFrame(protocol.StreamID, streamControlFrameGetter) {}
func (s *vxRecvSender) onStreamCompleted(protocol.StreamID)                             { s.completed++ }

const vxMaxSegs = 6

type vxRecvGhost struct {
	segOff     [vxMaxSegs]protocol.ByteCount
	segLen     [vxMaxSegs]protocol.ByteCount
	nsegs      int
	highest    protocol.ByteCount
	finalKnown bool
	final      protocol.ByteCount
	read       protocol.ByteCount
	resetKnown bool
	reliable   protocol.ByteCount
	cancelled  bool
	shutdown   bool
	eofSeen    bool
}

func (g *vxRecvGhost) covered(pos protocol.ByteCount) bool {
	c := false
	for i := 0; i < g.nsegs; i++ {
		c = vx_or(c, vx_and(g.segOff[i] <= pos, pos < g.segOff[i]+g.segLen[i]))
	}
	return c
}

func vxTransportCode(err error) (qerr.TransportErrorCode, bool) {
	var te *qerr.TransportError
	if errors.As(err, &te) {
		return te.ErrorCode, true
	}
	return 0, false
}

// the receive half of one stream with the real stream and connection flow controllers:
// frames in any order/overlap with FIN anywhere, reads of any size, RESET_STREAM(_AT), CancelRead
func Harness_C03_stream() {
	sender := &vxRecvSender{}
	strWin := protocol.ByteCount(2000)
	connWin := protocol.ByteCount(3000)
	if vx_bool("smallConnWindow") {
		connWin = 1200
	}
	rtt := utils.NewRTTStats()
	connFC := flowcontrol.NewConnectionFlowController(connWin, connWin, nil, rtt, utils.DefaultLogger)
	strFC := flowcontrol.NewStreamFlowController(4, connFC, strWin, strWin, 0, rtt, utils.DefaultLogger)
	str := newReceiveStream(4, sender, strFC)
	g := &vxRecvGhost{}
	shutdownErr := errors.New("vx shutdown")
	limit := strWin
	if connWin < limit {
		limit = connWin
	}
	steps := vx_param("steps")
	maxlen := vx_param("maxlen")
	maxread := vx_param("maxread")
	now := vxNow()
	for step := 0; step < steps; step++ {
		switch vx_choice("op", 5) {
		case 0: // STREAM frame
			off := protocol.ByteCount(vx_i64("off"))
			n := vx_int("len")
			fin := vx_bool("fin")
			vx_assume(off >= 0 && n >= 0 && n <= maxlen)
			vx_assume(off+protocol.ByteCount(n) <= protocol.MaxByteCount) // guaranteed by the frame parser
			end := off + protocol.ByteCount(n)
			f := &wire.StreamFrame{StreamID: 4, Offset: off, Data: vx_window("truth", uint64(off), n), Fin: fin}
			finalSizeBad := vx_or(vx_and(g.finalKnown, vx_or(vx_and(fin, end != g.final), end > g.final)), vx_and(fin, end < g.highest))
			flowBad := end > limit
			err := str.handleStreamFrame(f, now)
			if err != nil {
				code, isTE := vxTransportCode(err)
				vx_assert("C03.s.error-is-transport-error", isTE)
				vx_assert("C03.s.error-only-when-due", vx_or(finalSizeBad, flowBad))
				if code == qerr.FinalSizeError {
					vx_reach("C03.s.final-size-error")
					vx_assert("C03.s.final-size-error-due", finalSizeBad)
				} else {
					vx_reach("C03.s.flow-control-error")
					vx_assert("C03.s.flow-control-error-code", code == qerr.FlowControlError)
					vx_assert("C03.s.flow-control-error-due", flowBad)
				}
				vx_stop() // the connection is closed with this error
			}
			vx_assert("C03.s.bad-frame-rejected", !vx_or(finalSizeBad, flowBad))
			if !g.cancelled && n > 0 && g.nsegs < vxMaxSegs {
				g.segOff[g.nsegs], g.segLen[g.nsegs] = off, protocol.ByteCount(n)
				g.nsegs++
			}
			if end > g.highest {
				g.highest = end
			}
			if fin {
				g.finalKnown, g.final = true, end
			}
		case 1: // Read
			m := vx_int("readlen")
			vx_assume(m >= 0 && m <= maxread)
			buf := make([]byte, m)
			str.SetReadDeadline(time.Now().Add(300 * time.Millisecond))
			n, err := str.Read(buf)
			vx_assert("C03.s.read-count", n >= 0 && n <= m)
			if n > 0 {
				vx_reach("C03.s.read-data")
				j := vx_int("probe")
				vx_assume(j >= 0 && j < n)
				vx_assert("C03.s.content", buf[j] == vx_byteAt("truth", uint64(g.read)+uint64(j)))
				vx_assert("C03.s.no-data-after-eof", !g.eofSeen)
			}
			g.read += protocol.ByteCount(n)
			vx_assert("C03.s.never-beyond-final", vx_implies(g.finalKnown, g.read <= g.final))
			switch {
			case err == nil:
				vx_assert("C03.s.progress", n > 0 || m == 0)
			case err == io.EOF:
				vx_reach("C03.s.eof")
				g.eofSeen = true
				vx_assert("C03.s.eof-only-at-final-size", vx_and(g.finalKnown, g.read == g.final))
				vx_assert("C03.s.eof-not-after-reset", !g.resetKnown)
			case err == errDeadline:
				vx_reach("C03.s.deadline")
				// the reader was made to wait: nothing deliverable may have been withheld
				vx_assert("C03.s.nothing-withheld", !g.covered(g.read))
				vx_assert("C03.s.eof-withheld", !vx_and(vx_and(g.finalKnown, !g.resetKnown), g.read == g.final))
			case err == shutdownErr:
				vx_assert("C03.s.shutdown-only-after-shutdown", g.shutdown)
			default:
				var se *StreamError
				vx_assert("C03.s.error-type", errors.As(err, &se))
				vx_reach("C03.s.reset-error")
				// a reset surfaces only after the reliable prefix was delivered (or after a local cancel)
				vx_assert("C03.s.reset-after-reliable-prefix", vx_or(g.cancelled, vx_and(g.resetKnown, g.read >= g.reliable)))
			}
		case 2: // RESET_STREAM / RESET_STREAM_AT
			fs := protocol.ByteCount(vx_i64("finalSize"))
			rs := protocol.ByteCount(vx_i64("reliableSize"))
			vx_assume(fs >= 0 && fs <= protocol.MaxByteCount && rs >= 0 && rs <= fs) // parser guarantees
			finalSizeBad := vx_or(vx_and(g.finalKnown, fs != g.final), fs < g.highest)
			flowBad := fs > limit
			err := str.handleResetStreamFrame(&wire.ResetStreamFrame{StreamID: 4, ErrorCode: 7, FinalSize: fs, ReliableSize: rs}, now)
			if g.shutdown {
				vx_stop()
			}
			if err != nil {
				code, isTE := vxTransportCode(err)
				vx_assert("C03.s.reset-error-is-transport-error", isTE)
				if code == qerr.FinalSizeError {
					vx_reach("C03.s.final-size-error")
					vx_assert("C03.s.reset-final-size-error-due", finalSizeBad)
				} else {
					vx_assert("C03.s.reset-flow-control-error-due", vx_and(code == qerr.FlowControlError, flowBad))
				}
				vx_stop()
			}
			vx_reach("C03.s.reset")
			vx_assert("C03.s.bad-reset-rejected", !vx_or(finalSizeBad, flowBad))
			if !g.cancelled {
				if !g.resetKnown || rs < g.reliable {
					g.reliable = rs
				}
				g.resetKnown = true
			}
			g.finalKnown, g.final = true, fs
			if fs > g.highest {
				g.highest = fs
			}
		case 3:
			str.CancelRead(9)
			if !g.eofSeen && !g.shutdown {
				g.cancelled = true
			}
		case 4:
			vx_stop()
		}
		vx_assert("C03.s.completed-at-most-once", sender.completed <= 1)
	}
}
