package quic

//vx:pkg github.com/refraction-networking/uquic
//vx:entry Harness_C03_sorter
//vx:param quick segs=2 maxlen=4096
//vx:param thorough segs=3 maxlen=65536
//vx:reach Harness_C03_sorter C03.pop C03.pop-short-copy C03.dup C03.drained

import (
	"github.com/refraction-networking/uquic/internal/protocol"
)

type vxSeg struct {
	off  protocol.ByteCount
	n    int
	buf  []byte
	done int
	ok   bool
}

// K segments (offset, length) of one underlying byte string "truth", pushed in any order with
// any overlap; pops interleaved. Each segment has its own buffer which is scribbled (as a pool
// would on reuse) as soon as the sorter says it is done with it.
func Harness_C03_sorter() {
	s := newFrameSorter()
	k := vx_param("segs")
	maxlen := vx_param("maxlen")
	segs := make([]*vxSeg, k)
	next := protocol.ByteCount(0) // ghost: next offset the reader expects
	popCheck := func() bool {
		off, data, cb := s.Pop()
		if data == nil {
			vx_assert("C03.pop-nil-keeps-pos", off == next)
			return false
		}
		vx_reach("C03.pop")
		if len(data) < protocol.MinStreamFrameBufferSize {
			vx_reach("C03.pop-short-copy")
		}
		vx_assert("C03.contiguous", off == next)
		vx_assert("C03.nonempty", len(data) > 0)
		j := vx_int("probe")
		vx_assume(j >= 0 && j < len(data))
		vx_assert("C03.content", data[j] == vx_byteAt("truth", uint64(off)+uint64(j)))
		next = off + protocol.ByteCount(len(data))
		if cb != nil {
			cb() // the stream releases the buffer after consuming it
		}
		return true
	}
	for i := 0; i < k; i++ {
		off := protocol.ByteCount(vx_i64("off"))
		n := vx_int("len")
		vx_assume(off >= 0 && n >= 0 && n <= maxlen)
		// Precondition supplied by the callers (receive_stream.go, crypto_stream.go): the end offset has
		// passed flow control / the crypto buffer limit, hence lies strictly below MaxByteCount. In
		// isolation, end == 2^62-1 makes findEndGap panic ("no gap found"); recorded in DESIGN.md.
		vx_assume(off+protocol.ByteCount(n) < protocol.MaxByteCount)
		sg := &vxSeg{off: off, n: n, buf: vx_window("truth", uint64(off), n)}
		segs[i] = sg
		err := s.Push(sg.buf, off, func() {
			sg.done++
			vx_scribble(sg.buf)
		})
		sg.ok = err == nil
		vx_assert("C03.push-no-error", err == nil) // fewer than MaxStreamFrameSorterGaps gaps here
		if sg.done > 0 {
			vx_reach("C03.dup")
		}
		if vx_bool("popNow") {
			popCheck()
		}
	}
	for i := 0; i <= k+1; i++ {
		if !popCheck() {
			break
		}
	}
	vx_reach("C03.drained")
	vx_assert("C03.no-more-at-readpos", !vx_or(false, func() bool { _, d, _ := s.Pop(); return d != nil }()))
	// nothing deliverable is withheld: no accepted segment covers the final read position,
	// and everything below it has been delivered
	for _, sg := range segs {
		covers := vx_and(sg.ok, vx_and(sg.off <= next, next < sg.off+protocol.ByteCount(sg.n)))
		vx_assert("C03.nothing-withheld", !covers)
		vx_assert("C03.done-at-most-once", sg.done <= 1)
	}
	vx_observe("next", uint64(next))
}
