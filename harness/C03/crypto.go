package quic

//vx:pkg github.com/refraction-networking/uquic
//vx:entry Harness_C03_crypto Harness_C03_crypto_send Harness_C03_crypto_late_retransmission
//vx:reach Harness_C03_crypto_late_retransmission C03.crypto.delivered C03.crypto.finished C03.crypto.after-finish-rejected C03.crypto.after-finish-ignored
//vx:param quick frames=2
//vx:param thorough frames=3
//vx:param all maxdepth=2000
//vx:reach Harness_C03_crypto C03.crypto.delivered C03.crypto.buffer-exceeded C03.crypto.finished C03.crypto.finish-refused C03.crypto.after-finish-rejected C03.crypto.after-finish-ignored
//vx:reach Harness_C03_crypto_send C03.crypto.send.frame C03.crypto.send.drained

import (
	"errors"

	"github.com/refraction-networking/uquic/internal/protocol"
	"github.com/refraction-networking/uquic/internal/qerr"
	"github.com/refraction-networking/uquic/internal/wire"
)

// CRYPTO reassembly (cryptoStream = baseCryptoStream over the frame sorter): frames (offset, length) of one
// underlying byte string in any order with any overlap, reads interleaved, the encryption level finished at
// any point. Delivered bytes are exactly the original ones, contiguously, once; data beyond the crypto buffer
// limit is CRYPTO_BUFFER_EXCEEDED; the level cannot be finished with undelivered data buffered; after it
// is finished new data is a PROTOCOL_VIOLATION and retransmissions are ignored.
func Harness_C03_crypto() { vxCryptoHarness(vx_param("frames"), false) }

// Directed history for retransmissions that arrive after the level was finished: two frames in any order and
// overlap, each followed by a read, then Finish, then a third frame: it is ignored iff it ends at or below
// the highest end offset ever received (not the last one), and is a PROTOCOL_VIOLATION otherwise.
func Harness_C03_crypto_late_retransmission() { vxCryptoHarness(3, true) }

func vxCryptoHarness(k int, directed bool) {
	s := newCryptoStream()
	next := protocol.ByteCount(0)
	highest := protocol.ByteCount(0)  // largest end offset seen
	highData := protocol.ByteCount(0) // largest end offset of a non-empty frame
	finished := false
	read := func() {
		for i := 0; i < 4; i++ {
			data := s.GetCryptoData()
			if data == nil {
				return
			}
			vx_assert("C03.crypto.nothing-after-finish", !finished)
			vx_reach("C03.crypto.delivered")
			vx_assert("C03.crypto.nonempty", len(data) > 0)
			vx_assert("C03.crypto.within-received", next+protocol.ByteCount(len(data)) <= highest)
			j := vx_int("probe")
			vx_assume(j >= 0 && j < len(data))
			vx_assert("C03.crypto.content", data[j] == vx_byteAt("truth", uint64(next)+uint64(j)))
			next += protocol.ByteCount(len(data))
		}
	}
	for i := 0; i < k; i++ {
		finishNow := i == k-1
		if !directed {
			finishNow = !finished && vx_bool("finish")
		}
		if finishNow {
			err := s.Finish()
			// ghost: undelivered contiguous data at the read position?
			if err != nil {
				var te *qerr.TransportError
				vx_assert("C03.crypto.finish-error-kind", errors.As(err, &te) && te.ErrorCode == qerr.ProtocolViolation)
				vx_reach("C03.crypto.finish-refused")
				// refused exactly when received bytes (contiguous or not) are still undelivered
				vx_assert("C03.crypto.finish-refused-only-with-undelivered-data", highData > next)
				return
			}
			vx_assert("C03.crypto.finish-only-when-drained", highData <= next)
			finished = true
			vx_reach("C03.crypto.finished")
		}
		off := protocol.ByteCount(vx_i64("off"))
		n := vx_int("len")
		vx_assume(off >= 0 && off < 1<<62 && n >= 0 && n <= 20000)
		end := off + protocol.ByteCount(n)
		f := &wire.CryptoFrame{Offset: off, Data: vx_window("truth", uint64(off), n)}
		err := s.HandleCryptoFrame(f)
		var te *qerr.TransportError
		switch {
		case end > protocol.MaxCryptoStreamOffset:
			vx_assert("C03.crypto.beyond-limit-is-buffer-exceeded", err != nil && errors.As(err, &te) && te.ErrorCode == qerr.CryptoBufferExceeded)
			vx_reach("C03.crypto.buffer-exceeded")
			return
		case finished && end > highest:
			vx_assert("C03.crypto.new-data-after-finish-is-protocol-violation", err != nil && errors.As(err, &te) && te.ErrorCode == qerr.ProtocolViolation)
			vx_reach("C03.crypto.after-finish-rejected")
			return
		case finished:
			vx_assert("C03.crypto.retransmission-after-finish-ignored", err == nil)
			vx_reach("C03.crypto.after-finish-ignored")
		default:
			vx_assert("C03.crypto.accepted", err == nil) // far fewer than the gap limit here
			if end > highest {
				highest = end
			}
			if n > 0 && end > highData {
				highData = end
			}
		}
		if directed || vx_bool("readNow") {
			read()
		}
	}
	read()
	vx_observe("next", uint64(next))
}

// The sending half: Write then PopCryptoFrame with arbitrary budgets: frames are contiguous from offset 0,
// carry the written bytes, and fit the budget.
func Harness_C03_crypto_send() {
	s := newCryptoStream()
	n := vx_range("written", 1, 3000)
	buf := vx_window("truth", 0, n)
	m, err := s.Write(buf)
	vx_assert("C03.crypto.send.write", err == nil && m == n)
	next := protocol.ByteCount(0)
	for i := 0; i < 3; i++ {
		maxLen := protocol.ByteCount(vx_range("maxLen", 0, 1500))
		f := s.PopCryptoFrame(maxLen)
		if f == nil {
			continue
		}
		vx_reach("C03.crypto.send.frame")
		vx_assert("C03.crypto.send.fits", f.Length(protocol.Version1) <= maxLen)
		vx_assert("C03.crypto.send.contiguous", f.Offset == next && len(f.Data) > 0)
		j := vx_int("probe")
		vx_assume(j >= 0 && j < len(f.Data))
		vx_assert("C03.crypto.send.content", f.Data[j] == vx_byteAt("truth", uint64(next)+uint64(j)))
		next += protocol.ByteCount(len(f.Data))
	}
	vx_assert("C03.crypto.send.only-written", next <= protocol.ByteCount(n))
	if !s.HasData() {
		vx_reach("C03.crypto.send.drained")
		vx_assert("C03.crypto.send.everything-sent", next == protocol.ByteCount(n))
	}
}
