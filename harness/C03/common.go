package quic

//vx:pkg github.com/refraction-networking/uquic

import "github.com/refraction-networking/uquic/internal/monotime"

func vxNow() monotime.Time { return monotime.Now() }
