package quic

//vx:pkg github.com/refraction-networking/uquic
//vx:entry Harness_C01_dgram Harness_C01_dgram_receive
//vx:reach Harness_C01_dgram_receive C01.dgr.delivered C01.dgr.scribbled C01.dgr.closed
//vx:param all maxdepth=3000
//vx:reach Harness_C01_dgram C01.dgram.packed C01.dgram.with-framer-data C01.dgram.with-retransmission C01.dgram.with-ack C01.dgram.discarded C01.dgram.second-packet

import (
	"context"

	"github.com/refraction-networking/uquic/internal/flowcontrol"
	"github.com/refraction-networking/uquic/internal/handshake"
	"github.com/refraction-networking/uquic/internal/monotime"
	"github.com/refraction-networking/uquic/internal/protocol"
	"github.com/refraction-networking/uquic/internal/utils"
	"github.com/refraction-networking/uquic/internal/wire"
)

type vxShortSealer struct{}

func (vxShortSealer) Seal(dst, _ []byte, _ protocol.PacketNumber, _ []byte) []byte { return dst }
func (vxShortSealer) EncryptHeader(_ []byte, _ *byte, _ []byte)                    {}
func (vxShortSealer) DecryptHeader(_ []byte, _ *byte, _ []byte)                    {}
func (vxShortSealer) Overhead() int                                                { return 16 }
func (vxShortSealer) KeyPhase() protocol.KeyPhaseBit                               { return protocol.KeyPhaseZero }

type vxSealing1RTT struct{}

func (vxSealing1RTT) GetInitialSealer() (handshake.LongHeaderSealer, error) { return nil, handshake.ErrKeysDropped }
func (vxSealing1RTT) GetHandshakeSealer() (handshake.LongHeaderSealer, error) {
	return nil, handshake.ErrKeysDropped
}
func (vxSealing1RTT) Get0RTTSealer() (handshake.LongHeaderSealer, error)  { return nil, handshake.ErrKeysDropped }
func (vxSealing1RTT) Get1RTTSealer() (handshake.ShortHeaderSealer, error) { return vxShortSealer{}, nil }

type vxAcks struct{ ack *wire.AckFrame }

func (a *vxAcks) GetAckFrame(protocol.EncryptionLevel, monotime.Time, bool) *wire.AckFrame {
	f := a.ack
	a.ack = nil
	return f
}

type vxDgramPN struct{ pn protocol.PacketNumber }

func (m *vxDgramPN) PeekPacketNumber(protocol.EncryptionLevel) (protocol.PacketNumber, protocol.PacketNumberLen) {
	return m.pn, protocol.PacketNumberLen2
}
func (m *vxDgramPN) PopPacketNumber(protocol.EncryptionLevel) protocol.PacketNumber {
	pn := m.pn
	m.pn++
	return pn
}

// An application datagram through the real 1-RTT packer (packetPacker.AppendPacket -> composeNextPacket ->
// appendShortHeaderPacket) next to every combination of an ACK, a queued retransmission, a control frame
// from the framer and stream data: the DATAGRAM frame on the wire carries the application's bytes
// unmodified, it appears in at most one packet, it carries no retransmission handler, and declaring every
// frame of every packet lost puts no DATAGRAM frame into the retransmission queue ("delivered at most once").
func Harness_C01_dgram() {
	n := int(vx_concrete_u64(uint64([]int{1, 40, 1100, 1300}[vx_choice("datagramLen", 4)])))
	data := vx_bytesN("datagram", n)
	orig := string(data)
	withAck, withRetrans, withControl, withStream := vx_bool("ack"), vx_bool("retransmission"), vx_bool("control"), vx_bool("stream")
	maxSize := protocol.ByteCount(vx_concrete_u64(uint64([]int{1252, 1200, 60}[vx_choice("maxPacketSize", 3)])))

	rtt := utils.NewRTTStats()
	connFC := flowcontrol.NewConnectionFlowController(1<<20, 1<<20, nil, rtt, utils.DefaultLogger)
	connFC.UpdateSendWindow(1 << 20)
	fr := newFramer(connFC)
	rq := newRetransmissionQueue()
	dq := newDatagramQueue(func() {}, utils.DefaultLogger)
	acks := &vxAcks{}
	if withAck {
		acks.ack = &wire.AckFrame{AckRanges: []wire.AckRange{{Smallest: 1, Largest: 5}}}
	}
	if withRetrans {
		rq.addAppData(&wire.MaxStreamsFrame{Type: protocol.StreamTypeBidi, MaxStreamNum: 7})
	}
	if withControl {
		fr.QueueControlFrame(&wire.MaxDataFrame{MaximumData: 4242})
	}
	if withStream {
		sender := &vxSendSender{}
		strFC := flowcontrol.NewStreamFlowController(6, connFC, 1<<20, 1<<20, 1<<20, rtt, utils.DefaultLogger)
		str := newSendStream(context.Background(), 6, sender, strFC, false)
		_, err := str.Write(vx_bytesN("streamdata", 30))
		vx_assert("C01.dgram.stream-write", err == nil)
		fr.AddActiveStream(6, str)
	}
	vx_assert("C01.dgram.queued", dq.Add(&wire.DatagramFrame{DataLenPresent: true, Data: data}) == nil)
	dcid := protocol.ParseConnectionID([]byte{1, 2, 3, 4})
	pp := newPacketPacker(protocol.ConnectionID{}, func() protocol.ConnectionID { return dcid }, newInitialCryptoStream(true), newCryptoStream(),
		&vxDgramPN{pn: 0x20}, rq, vxSealing1RTT{}, fr, acks, dq, protocol.PerspectiveClient)
	parser := wire.NewFrameParser(true, true, false)
	seen := 0
	now := monotime.Time(3600e9)
	for k := 0; k < 3; k++ {
		buf := getPacketBuffer()
		pkt, err := pp.AppendPacket(buf, maxSize, now, protocol.Version1)
		if err == errNothingToPack {
			break
		}
		vx_assert("C01.dgram.pack-ok", err == nil)
		vx_assert("C01.dgram.packet-within-size", protocol.ByteCount(len(buf.Data)) <= maxSize && pkt.Length == protocol.ByteCount(len(buf.Data)))
		if k == 1 {
			vx_reach("C01.dgram.second-packet")
		}
		// what the packet's bookkeeping says
		for _, f := range pkt.Frames {
			if df, ok := f.Frame.(*wire.DatagramFrame); ok {
				vx_assert("C01.dgram.no-retransmission-handler", f.Handler == nil)
				vx_assert("C01.dgram.frame-data-unmodified", string(df.Data) == orig)
				if withControl || withStream {
					vx_reach("C01.dgram.with-framer-data")
				}
				if withRetrans {
					vx_reach("C01.dgram.with-retransmission")
				}
				if pkt.Ack != nil {
					vx_reach("C01.dgram.with-ack")
				}
			}
		}
		// what is on the wire (pass-through sealer): walk the frames of the payload
		body := buf.Data[1+4+2 : len(buf.Data)-16]
		for len(body) > 0 {
			ft, l, perr := parser.ParseType(body, protocol.Encryption1RTT)
			if perr != nil { // only PADDING left
				break
			}
			body = body[l:]
			var fl int
			var ferr error
			switch {
			case ft.IsDatagramFrameType():
				var df *wire.DatagramFrame
				df, fl, ferr = parser.ParseDatagramFrame(ft, body, protocol.Version1)
				vx_assert("C01.dgram.wire-frame-parses", ferr == nil)
				vx_reach("C01.dgram.packed")
				seen++
				vx_assert("C01.dgram.wire-bytes-unmodified", string(df.Data) == orig)
			case ft.IsAckFrameType():
				_, fl, ferr = parser.ParseAckFrame(ft, body, protocol.Encryption1RTT, protocol.Version1)
			case ft.IsStreamFrameType():
				_, fl, ferr = parser.ParseStreamFrame(ft, body, protocol.Version1)
			default:
				_, fl, ferr = parser.ParseLessCommonFrame(ft, body, protocol.Version1)
			}
			vx_assert("C01.dgram.wire-parses", ferr == nil)
			body = body[fl:]
		}
		// the packet is declared lost (spuriously or not): everything with a handler is handed back
		for _, f := range pkt.Frames {
			if f.Handler != nil {
				f.Handler.OnLost(f.Frame)
			}
		}
		for _, f := range pkt.StreamFrames {
			f.Handler.OnLost(f.Frame)
		}
		buf.Release()
	}
	vx_assert("C01.dgram.sent-at-most-once", seen <= 1)
	if seen == 0 {
		// too large for the packet: dropped (at the latest by the first packet without an ACK), never sent in part
		vx_assert("C01.dgram.oversized-is-dropped", dq.Peek() == nil)
		vx_reach("C01.dgram.discarded")
	}
	// nothing that will be retransmitted is a DATAGRAM frame
	for i := 0; i < 8 && rq.HasData(protocol.Encryption1RTT); i++ {
		f := rq.GetFrame(protocol.Encryption1RTT, 1500, protocol.Version1)
		if f == nil {
			break
		}
		_, isDgram := f.(*wire.DatagramFrame)
		vx_assert("C01.dgram.never-queued-for-retransmission", !isDgram)
	}
}

// The receiving half: DATAGRAM frames handed to the real datagramQueue (the packet buffer they point into is
// reused at once), then read by the application: each datagram is delivered unmodified, once, in arrival
// order; after the queue is closed and drained Receive reports the close error instead of inventing data.
func Harness_C01_dgram_receive() {
	dq := newDatagramQueue(func() {}, utils.DefaultLogger)
	k := int(vx_concrete_u64(uint64(vx_range("datagrams", 1, 3))))
	var want [3]string
	for i := 0; i < k; i++ {
		n := int(vx_concrete_u64(uint64([3]int{1, 0, 9}[vx_choice("len", 3)])))
		buf := vx_bytesN("payload", n)
		want[i] = string(buf)
		dq.HandleDatagramFrame(&wire.DatagramFrame{DataLenPresent: true, Data: buf})
		vx_scribble(buf) // the packet buffer is recycled
		vx_reach("C01.dgr.scribbled")
	}
	for i := 0; i < k; i++ {
		got, err := dq.Receive(context.Background())
		vx_assert("C01.dgr.receive-ok", err == nil)
		vx_assert("C01.dgr.unmodified-in-order-once", string(got) == want[i])
		vx_reach("C01.dgr.delivered")
	}
	dq.CloseWithError(errNothingToPack)
	_, err := dq.Receive(context.Background())
	vx_assert("C01.dgr.nothing-after-the-last", err == errNothingToPack)
	vx_reach("C01.dgr.closed")
}
