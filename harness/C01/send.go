package quic

//vx:pkg github.com/refraction-networking/uquic
//vx:entry Harness_C01_send Harness_C01_send_completion
//vx:reach Harness_C01_send_completion C01.compl.completed C01.compl.retransmitted
//vx:param all maxdepth=2000
//vx:param quick steps=4
//vx:param thorough steps=4
//vx:reach Harness_C01_send C01.send.popped C01.send.retransmitted C01.send.fin C01.send.acked C01.send.completed C01.send.blocked-by-window C01.send.drained

import (
	"context"

	"github.com/refraction-networking/uquic/internal/ackhandler"
	"github.com/refraction-networking/uquic/internal/flowcontrol"
	"github.com/refraction-networking/uquic/internal/protocol"
	"github.com/refraction-networking/uquic/internal/utils"
	"github.com/refraction-networking/uquic/internal/wire"
)

type vxSendSender struct{ completed int }

func (s *vxSendSender) onHasConnectionData()                                                {}
func (s *vxSendSender) onHasStreamData(protocol.StreamID, *SendStream)                      {}
func (s *vxSendSender) onHasStreamControlFrame(protocol.StreamID, streamControlFrameGetter) {}
func (s *vxSendSender) onStreamCompleted(protocol.StreamID)                                 { s.completed++ }

const vxMaxFrames = 10

type vxSentFrame struct {
	f     ackhandler.StreamFrame
	off   protocol.ByteCount
	n     protocol.ByteCount
	fin   bool
	state int // 0 outstanding, 1 acked, 2 lost
}

// The send half of one stream with the real flow controllers: writes of the next bytes of "truth",
// packetisation with arbitrary budgets, loss and acknowledgement of any outstanding frame, window
// updates, Close. Every frame (first transmission or retransmission, possibly re-split) carries exactly
// the written bytes at its offset; nothing beyond the peer's credit; FIN only at the final size; after a
// final drain every written byte within the credit is in a frame that was not lost.
func Harness_C01_send() {
	sender := &vxSendSender{}
	rtt := utils.NewRTTStats()
	connFC := flowcontrol.NewConnectionFlowController(1<<20, 1<<20, nil, rtt, utils.DefaultLogger)
	connFC.UpdateSendWindow(1 << 20)
	strFC := flowcontrol.NewStreamFlowController(6, connFC, 1<<20, 1<<20, 0, rtt, utils.DefaultLogger)
	str := newSendStream(context.Background(), 6, sender, strFC, false)
	limit := protocol.ByteCount(vx_range("initialStreamCredit", 0, 1500))
	str.updateSendWindow(limit)
	var frames [vxMaxFrames]*vxSentFrame
	nf := 0
	written := protocol.ByteCount(0)
	closed := false
	pop := func(maxBytes protocol.ByteCount) bool {
		f, _, _ := str.popStreamFrame(maxBytes, protocol.Version1)
		if f.Frame == nil {
			return false
		}
		vx_reach("C01.send.popped")
		sf := f.Frame
		vx_assert("C01.send.frame-fits-budget", sf.Length(protocol.Version1) <= maxBytes)
		end := sf.Offset + sf.DataLen()
		vx_assert("C01.send.only-written-bytes", end <= written)
		vx_assert("C01.send.within-peer-credit", end <= limit)
		vx_assert("C01.send.non-empty-or-fin", sf.DataLen() > 0 || sf.Fin)
		if sf.DataLen() > 0 {
			j := vx_int("probe")
			vx_assume(j >= 0 && j < len(sf.Data))
			vx_assert("C01.send.bytes-at-true-offset", sf.Data[j] == vx_byteAt("truth", uint64(sf.Offset)+uint64(j)))
		}
		if sf.Fin {
			vx_reach("C01.send.fin")
			vx_assert("C01.send.fin-only-after-close-at-final-size", closed && end == written)
		}
		for i := 0; i < nf; i++ {
			if frames[i].state == 2 && frames[i].off <= sf.Offset && sf.Offset < frames[i].off+frames[i].n {
				vx_reach("C01.send.retransmitted")
			}
		}
		if nf < vxMaxFrames {
			frames[nf] = &vxSentFrame{f: f, off: sf.Offset, n: sf.DataLen(), fin: sf.Fin}
			nf++
		}
		return true
	}
	steps := vx_param("steps")
	for step := 0; step < steps; step++ {
		switch vx_choice("op", 6) {
		case 0: // the application writes the next n bytes
			n := vx_range("writeLen", 1, 700)
			if closed || written+protocol.ByteCount(n) > protocol.MaxPacketBufferSize {
				continue // larger writes block until packetised: needs a second goroutine
			}
			buf := vx_window("truth", uint64(written), n)
			m, err := str.Write(buf)
			vx_assert("C01.send.write-accepted", err == nil && m == n)
			vx_scribble(buf) // the caller may reuse its buffer at once
			written += protocol.ByteCount(n)
		case 1:
			// the framer never offers less than MinStreamFrameSize bytes of packet space to a stream (framer.go)
			pop(protocol.ByteCount(vx_range("maxBytes", int(protocol.MinStreamFrameSize), 1500)))
		case 2, 3: // a packet carrying one of the outstanding frames is lost / acknowledged
			if nf == 0 {
				continue
			}
			fr := frames[vx_choice("which", nf)]
			if fr.state != 0 {
				continue
			}
			if vx_bool("ack") {
				fr.state = 1
				fr.f.Handler.OnAcked(fr.f.Frame)
				vx_reach("C01.send.acked")
			} else {
				fr.state = 2
				fr.f.Handler.OnLost(fr.f.Frame)
			}
		case 4: // MAX_STREAM_DATA
			l := protocol.ByteCount(vx_range("newLimit", 0, 1500))
			str.updateSendWindow(l)
			if l > limit {
				limit = l
			}
		case 5:
			if !closed {
				vx_assert("C01.send.close-ok", str.Close() == nil)
				closed = true
			}
		}
		vx_assert("C01.send.completed-at-most-once", sender.completed <= 1)
		if sender.completed == 1 {
			vx_reach("C01.send.completed")
			all := closed
			for i := 0; i < nf; i++ {
				all = all && frames[i].state != 0
			}
			vx_assert("C01.send.completed-only-when-fin-sent-and-nothing-outstanding", all)
		}
	}
	// final drain with generous budgets
	for i := 0; i < 4 && nf < vxMaxFrames; i++ {
		if !pop(1500) {
			break
		}
	}
	vx_reach("C01.send.drained")
	deliverable := written
	if limit < deliverable {
		deliverable = limit
		vx_reach("C01.send.blocked-by-window")
	}
	if deliverable > 0 {
		q := protocol.ByteCount(vx_i64("coverProbe"))
		vx_assume(q >= 0 && q < deliverable)
		covered := false
		for i := 0; i < nf; i++ {
			covered = vx_or(covered, vx_and(frames[i].state != 2, vx_and(frames[i].off <= q, q < frames[i].off+frames[i].n)))
		}
		vx_assert("C01.send.every-written-byte-in-a-frame-not-lost", covered)
	}
	_ = wire.StreamFrame{}
}


// Directed history for stream completion: data written, packetised in two frames, closed (FIN sent), then
// any three of {lose a frame, acknowledge a frame, packetise again}. The stream may be reported completed
// only when every written byte is in an acknowledged frame and the FIN was acknowledged.
func Harness_C01_send_completion() {
	sender := &vxSendSender{}
	rtt := utils.NewRTTStats()
	connFC := flowcontrol.NewConnectionFlowController(1<<20, 1<<20, nil, rtt, utils.DefaultLogger)
	connFC.UpdateSendWindow(1 << 20)
	strFC := flowcontrol.NewStreamFlowController(6, connFC, 1<<20, 1<<20, 1<<20, rtt, utils.DefaultLogger)
	str := newSendStream(context.Background(), 6, sender, strFC, false)
	n := vx_range("writeLen", 2, 1000)
	_, err := str.Write(vx_window("truth", 0, n))
	vx_assert("C01.compl.write", err == nil)
	var frames [6]*vxSentFrame
	nf := 0
	pop := func(max protocol.ByteCount) {
		f, _, _ := str.popStreamFrame(max, protocol.Version1)
		if f.Frame != nil && nf < len(frames) {
			for i := 0; i < nf; i++ {
				if frames[i].state == 2 {
					vx_reach("C01.compl.retransmitted")
				}
			}
			frames[nf] = &vxSentFrame{f: f, off: f.Frame.Offset, n: f.Frame.DataLen(), fin: f.Frame.Fin}
			nf++
		}
	}
	pop(protocol.ByteCount(vx_range("firstBudget", int(protocol.MinStreamFrameSize), 600)))
	vx_assert("C01.compl.close", str.Close() == nil)
	pop(1500)
	for step := 0; step < 3; step++ {
		switch vx_choice("op", 3) {
		case 0, 1:
			if nf == 0 {
				continue
			}
			fr := frames[vx_choice("which", nf)]
			if fr.state != 0 {
				continue
			}
			if vx_bool("ack") {
				fr.state = 1
				fr.f.Handler.OnAcked(fr.f.Frame)
			} else {
				fr.state = 2
				fr.f.Handler.OnLost(fr.f.Frame)
			}
		case 2:
			pop(1500)
		}
		vx_assert("C01.compl.completed-at-most-once", sender.completed <= 1)
		if sender.completed == 1 {
			vx_reach("C01.compl.completed")
			for i := 0; i < nf; i++ {
				if frames[i].state == 2 {
					vx_reach("C01.compl.lost-then-acked-rest")
				}
			}
			q := protocol.ByteCount(vx_range("coverProbe", 0, n-1))
			acked, finAcked := false, false
			for i := 0; i < nf; i++ {
				acked = vx_or(acked, vx_and(frames[i].state == 1, vx_and(frames[i].off <= q, q < frames[i].off+frames[i].n)))
				finAcked = finAcked || (frames[i].state == 1 && frames[i].fin)
			}
			vx_assert("C01.compl.completed-only-when-every-byte-acknowledged", acked)
			vx_assert("C01.compl.completed-only-when-fin-acknowledged", finAcked)
		}
	}
}
