package quic

//vx:pkg github.com/refraction-networking/uquic
//vx:entry Harness_C15_streamsmap
//vx:param quick steps=3
//vx:param thorough steps=4
//vx:reach Harness_C15_streamsmap C15.peer-opened C15.stream-limit-error C15.stream-state-error C15.max-streams-sent C15.opened C15.open-blocked C15.accepted C15.deleted C15.streams-blocked-sent

import (
	"context"
	"errors"

	"github.com/refraction-networking/uquic/internal/flowcontrol"
	"github.com/refraction-networking/uquic/internal/protocol"
	"github.com/refraction-networking/uquic/internal/qerr"
	"github.com/refraction-networking/uquic/internal/utils"
	"github.com/refraction-networking/uquic/internal/wire"
)

type vxSMSender struct{}

func (vxSMSender) onHasConnectionData()                                                {}
func (vxSMSender) onHasStreamData(protocol.StreamID, *SendStream)                      {}
func (vxSMSender) onHasStreamControlFrame(protocol.StreamID, streamControlFrameGetter) {}
func (vxSMSender) onStreamCompleted(protocol.StreamID)                                 {}

const vxMaxOpen = 8

// ghost for one stream type
type vxTypeGhost struct {
	limit      uint64 // configured concurrency limit for incoming streams
	advertised uint64 // largest MAX_STREAMS value the peer has been told (stream count)
	peerOpened uint64 // number of streams the peer has opened so far (high-water mark, as a count)
	open       [vxMaxOpen]protocol.StreamID
	nopen      int
	accepted   uint64
	completed  uint64 // accepted and deleted
	peerMax    uint64 // largest MAX_STREAMS from the peer (streams we may open)
	opened     uint64 // streams we opened
	blockedAt  uint64
	everBlocked bool
}

func (g *vxTypeGhost) isOpen(id protocol.StreamID) bool {
	for i := 0; i < g.nopen; i++ {
		if g.open[i] == id {
			return true
		}
	}
	return false
}

func Harness_C15_streamsmap() {
	pers := protocol.PerspectiveClient
	if vx_bool("server") {
		pers = protocol.PerspectiveServer
	}
	var g [2]vxTypeGhost // 0 bidi, 1 uni
	g[0].limit = uint64(vx_range("maxIncomingBidi", 1, 2))
	g[1].limit = uint64(vx_range("maxIncomingUni", 1, 2))
	g[0].advertised, g[1].advertised = g[0].limit, g[1].limit
	rtt := utils.NewRTTStats()
	connFC := flowcontrol.NewConnectionFlowController(1<<20, 1<<20, nil, rtt, utils.DefaultLogger)
	var queued []wire.Frame
	m := newStreamsMap(context.Background(), vxSMSender{}, func(f wire.Frame) { queued = append(queued, f) },
		func(id protocol.StreamID) flowcontrol.StreamFlowController {
			return flowcontrol.NewStreamFlowController(id, connFC, 1<<16, 1<<16, 1<<16, rtt, utils.DefaultLogger)
		}, g[0].limit, g[1].limit, pers)
	cancelled, cancel := context.WithCancel(context.Background())
	cancel()
	typeIdx := func(t protocol.StreamType) int {
		if t == protocol.StreamTypeUni {
			return 1
		}
		return 0
	}
	firstIncoming := func(ti int) protocol.StreamID {
		id := protocol.StreamID(0)
		if ti == 1 {
			id = 2
		}
		if pers == protocol.PerspectiveClient {
			id++ // server-initiated
		}
		return id
	}
	firstOutgoing := func(ti int) protocol.StreamID {
		id := protocol.StreamID(0)
		if ti == 1 {
			id = 2
		}
		if pers == protocol.PerspectiveServer {
			id++
		}
		return id
	}
	// drains the control-frame queue and checks MAX_STREAMS / STREAMS_BLOCKED discipline
	drain := func() {
		for _, f := range queued {
			switch fr := f.(type) {
			case *wire.MaxStreamsFrame:
				vx_reach("C15.max-streams-sent")
				gt := &g[typeIdx(fr.Type)]
				vx_assert("C15.max-streams-strictly-increasing", uint64(fr.MaxStreamNum) > gt.advertised)
				// credit only as streams fully complete: never more than limit + completed streams
				vx_assert("C15.credit-only-for-completed-streams", uint64(fr.MaxStreamNum) <= gt.limit+gt.completed)
				gt.advertised = uint64(fr.MaxStreamNum)
			case *wire.StreamsBlockedFrame:
				vx_reach("C15.streams-blocked-sent")
				gt := &g[typeIdx(fr.Type)]
				vx_assert("C15.streams-blocked-at-current-limit", uint64(fr.StreamLimit) == gt.peerMax)
				vx_assert("C15.streams-blocked-once-per-limit", !gt.everBlocked || gt.blockedAt != gt.peerMax)
				gt.everBlocked, gt.blockedAt = true, gt.peerMax
			}
		}
		queued = queued[:0]
	}
	codeOf := func(err error) (qerr.TransportErrorCode, bool) {
		var te *qerr.TransportError
		if errors.As(err, &te) {
			return te.ErrorCode, true
		}
		return 0, false
	}
	steps := vx_param("steps")
	for step := 0; step < steps; step++ {
		switch vx_choice("op", 5) {
		case 0: // a frame from the peer naming stream id
			id := protocol.StreamID(vx_i64("streamID"))
			vx_assume(id >= 0 && id <= protocol.MaxStreamID)
			ti := typeIdx(id.Type())
			gt := &g[ti]
			ours := id.InitiatedBy() == pers
			recvSide := vx_bool("receiveSideFrame") // STREAM / RESET_STREAM vs STOP_SENDING / MAX_STREAM_DATA
			var err error
			if recvSide {
				if vx_bool("reset") {
					err = m.HandleResetStreamFrame(&wire.ResetStreamFrame{StreamID: id, FinalSize: 1}, 1)
				} else {
					err = m.HandleStreamFrame(&wire.StreamFrame{StreamID: id, Data: []byte{1}}, 1)
				}
			} else {
				if vx_bool("stopSending") {
					err = m.HandleStopSendingFrame(&wire.StopSendingFrame{StreamID: id, ErrorCode: 1})
				} else {
					err = m.HandleMaxStreamDataFrame(&wire.MaxStreamDataFrame{StreamID: id, MaximumStreamData: 1 << 17})
				}
			}
			wrongDir := (ti == 1) && ((recvSide && ours) || (!recvSide && !ours))
			var num uint64 // 1-based ordinal of the stream among its kind
			if ours {
				num = uint64(id-firstOutgoing(ti))/4 + 1
			} else {
				num = uint64(id-firstIncoming(ti))/4 + 1
			}
			switch {
			case wrongDir:
				code, ok := codeOf(err)
				vx_assert("C15.wrong-direction-is-stream-state-error", ok && code == qerr.StreamStateError)
				vx_reach("C15.stream-state-error")
				vx_stop()
			case ours && num > gt.opened:
				code, ok := codeOf(err)
				vx_assert("C15.never-opened-local-stream-is-stream-state-error", ok && code == qerr.StreamStateError)
				vx_stop()
			case !ours && num > gt.advertised:
				code, ok := codeOf(err)
				vx_assert("C15.beyond-max-streams-is-stream-limit-error", ok && code == qerr.StreamLimitError)
				vx_reach("C15.stream-limit-error")
				vx_stop()
			default:
				vx_assert("C15.frame-within-limits-accepted", err == nil)
				if !ours && num > gt.peerOpened {
					// the peer implicitly opens every stream up to id
					for k := gt.peerOpened; k < num; k++ {
						if gt.nopen < vxMaxOpen {
							gt.open[gt.nopen] = firstIncoming(ti) + protocol.StreamID(4*k)
							gt.nopen++
						}
					}
					gt.peerOpened = num
					vx_reach("C15.peer-opened")
				}
			}
		case 1: // MAX_STREAMS from the peer
			ti := vx_choice("type", 2)
			n := uint64(vx_i64("maxStreams"))
			vx_assume(n <= 1<<60)
			t := protocol.StreamTypeBidi
			if ti == 1 {
				t = protocol.StreamTypeUni
			}
			m.HandleMaxStreamsFrame(&wire.MaxStreamsFrame{Type: t, MaxStreamNum: protocol.StreamNum(n)})
			if n > g[ti].peerMax {
				g[ti].peerMax = n
			}
		case 2: // the application opens a stream
			ti := vx_choice("type", 2)
			gt := &g[ti]
			var id protocol.StreamID
			var err error
			if ti == 0 {
				var s *Stream
				s, err = m.OpenStream()
				if err == nil {
					id = s.StreamID()
				}
			} else {
				var s *SendStream
				s, err = m.OpenUniStream()
				if err == nil {
					id = s.StreamID()
				}
			}
			if err != nil {
				var lim *StreamLimitReachedError
				var lim2 StreamLimitReachedError
				vx_assert("C15.open-fails-only-at-limit", (errors.As(err, &lim) || errors.As(err, &lim2)) && gt.opened >= gt.peerMax)
				vx_reach("C15.open-blocked")
			} else {
				vx_reach("C15.opened")
				vx_assert("C15.opened-id-next-in-sequence", id == firstOutgoing(ti)+protocol.StreamID(4*gt.opened))
				gt.opened++
				vx_assert("C15.never-beyond-peer-limit", gt.opened <= gt.peerMax)
			}
		case 3: // the application accepts (without waiting)
			ti := vx_choice("type", 2)
			gt := &g[ti]
			var id protocol.StreamID
			var err error
			if ti == 0 {
				var s *Stream
				s, err = m.AcceptStream(cancelled)
				if err == nil {
					id = s.StreamID()
				}
			} else {
				var s *ReceiveStream
				s, err = m.AcceptUniStream(cancelled)
				if err == nil {
					id = s.StreamID()
				}
			}
			if err == nil {
				vx_reach("C15.accepted")
				vx_assert("C15.accept-in-id-order-exactly-once", id == firstIncoming(ti)+protocol.StreamID(4*gt.accepted))
				vx_assert("C15.accept-only-opened", gt.accepted < gt.peerOpened)
				gt.accepted++
			} else {
				vx_assert("C15.accept-does-not-withhold", gt.accepted >= gt.peerOpened)
			}
		case 4: // an incoming stream completes (both directions done): the stream deletes itself
			ti := vx_choice("type", 2)
			gt := &g[ti]
			if gt.nopen == 0 {
				continue
			}
			k := vx_choice("which", gt.nopen)
			id := gt.open[k]
			err := m.DeleteStream(id)
			vx_assert("C15.delete-open-stream-ok", err == nil)
			vx_reach("C15.deleted")
			gt.open[k] = gt.open[gt.nopen-1]
			gt.nopen--
		}
		// recompute how many incoming streams are both accepted and deleted
		for ti := 0; ti < 2; ti++ {
			gt := &g[ti]
			c := uint64(0)
			for k := uint64(0); k < gt.accepted; k++ {
				if !gt.isOpen(firstIncoming(ti) + protocol.StreamID(4*k)) {
					c++
				}
			}
			gt.completed = c
		}
		drain()
		for ti := 0; ti < 2; ti++ {
			// the peer can never hold more concurrently open streams than the limit
			vx_assert("C15.concurrent-incoming-streams-within-limit", uint64(g[ti].nopen) <= g[ti].limit)
		}
	}
}
