package http3

//vx:pkg github.com/refraction-networking/uquic/http3
//vx:entry Harness_C18_response
//vx:param all maxdepth=4000 maxsteps=40000000
//vx:reach Harness_C18_response C18.rw.complete C18.rw.stream-failed C18.rw.trailer-sent C18.rw.body-on-wire C18.rw.forbidden-trailer-dropped

import (
	"errors"
	"net/http"

	"github.com/quic-go/qpack"
	quic "github.com/refraction-networking/uquic"
)

// a request stream whose send side fails after a number of writes (the peer reset the stream, or the connection was lost)
type vxFailingStream struct {
	vxScripted
	okWrites int
	written  []byte
}

var vxErrReset = errors.New("vx: stream reset by peer")

func (s *vxFailingStream) Write(p []byte) (int, error) {
	if s.okWrites == 0 {
		return 0, vxErrReset
	}
	s.okWrites--
	s.written = append(s.written, p...)
	return len(p), nil
}

// The server's response path (real responseWriter, real QPACK encoder) as server_conn.go drives it - handler
// activity, then Flush and flushTrailers - with the Logger left unset (the default), declared trailers
// (valid, forbidden, via the "Trailer:" prefix), status codes, small and large
// bodies, and a send side that starts failing after any number of writes: nothing panics; when nothing
// fails the wire carries HEADERS, then DATA frames whose payloads are exactly the body written, then the
// trailers.
func Harness_C18_response() {
	raw := &vxFailingStream{okWrites: int(vx_concrete_u64(uint64([6]int{100, 0, 1, 2, 3, 4}[vx_choice("writesBeforeReset", 6)])))}
	str := &Stream{datagramStream: raw, buf: make([]byte, 16)}
	w := newResponseWriter(str, nil, false, nil) // Server.Logger unset
	// --- what a handler may do ---
	h := w.Header()
	h["Date"] = nil // (documented way to suppress the Date header; keeps time formatting out of the model)
	h.Set("Content-Type", "text/plain")
	decl := int(vx_concrete_u64(uint64(vx_choice("trailerDeclaration", 4))))
	switch decl {
	case 1:
		h.Set("Trailer", "X-T")
	case 2:
		h.Set("Trailer", "Content-Length") // forbidden as a trailer (RFC 9110 6.5.1): ignored, not fatal
		vx_reach("C18.rw.forbidden-trailer-dropped")
	case 3:
		h.Set("Trailer", "X-T, Te")
	}
	status := [3]int{0, 200, 500}[int(vx_concrete_u64(uint64(vx_choice("status", 3))))]
	if status != 0 {
		w.WriteHeader(status)
	}
	var body []byte
	var marks []int // positions of the symbolic body bytes
	nw := int(vx_concrete_u64(uint64(vx_choice("writes", 3))))
	for i := 0; i < nw; i++ {
		n := int(vx_concrete_u64(uint64([3]int{2, 0, 4200}[vx_choice("writeLen", 3)])))
		p := make([]byte, n)
		if n > 0 {
			p[0], p[n-1] = vx_u8("bodyByte"), vx_u8("bodyByte")
		}
		m, err := w.Write(p)
		if err == nil {
			vx_assert("C18.rw.write-count", m == n)
			if n > 0 {
				marks = append(marks, len(body), len(body)+n-1)
			}
			body = append(body, p...)
		}
		if vx_bool("flush") {
			w.Flush()
		}
	}
	if decl == 1 || decl == 3 {
		h.Set("X-T", "tv")
	}
	if vx_bool("prefixedTrailer") {
		h.Set(http.TrailerPrefix+"X-P", "pv")
	}
	// --- what RawServerConn.handleRequestStream does once the handler has returned ---
	w.Flush()
	w.flushTrailers()

	if raw.okWrites < 50 {
		vx_reach("C18.rw.stream-failed")
		return
	}
	vx_reach("C18.rw.complete")
	// the wire: HEADERS, DATA..., [HEADERS]
	fp := &frameParser{r: &vxScripted{data: raw.written, chunk: 1 << 20}, closeConn: func(quic.ApplicationErrorCode, string) error { return nil }}
	f, err := fp.ParseNext(nil)
	hf, ok := f.(*headersFrame)
	vx_assert("C18.rw.starts-with-headers", err == nil && ok)
	rd := fp.r.(*vxScripted)
	rd.pos += int(hf.Length)
	var got []byte
	trailers := 0
	for rd.pos < len(rd.data) {
		f, err := fp.ParseNext(nil)
		vx_assert("C18.rw.frames-parse", err == nil)
		switch fr := f.(type) {
		case *dataFrame:
			vx_assert("C18.rw.no-data-after-trailers", trailers == 0)
			got = append(got, rd.data[rd.pos:rd.pos+int(fr.Length)]...)
			rd.pos += int(fr.Length)
		case *headersFrame:
			trailers++
			dec := qpack.NewDecoder()
			fn := dec.Decode(rd.data[rd.pos : rd.pos+int(fr.Length)])
			for {
				fld, derr := fn()
				if derr != nil {
					break
				}
				vx_assert("C18.rw.only-declared-valid-trailers-sent", (fld.Name == "x-t" && fld.Value == "tv") || (fld.Name == "x-p" && fld.Value == "pv"))
			}
			rd.pos += int(fr.Length)
		default:
			vx_assert("C18.rw.only-headers-and-data", false)
		}
	}
	vx_assert("C18.rw.at-most-one-trailer-section", trailers <= 1)
	if trailers == 1 {
		vx_reach("C18.rw.trailer-sent")
	}
	if len(body) > 0 {
		vx_reach("C18.rw.body-on-wire")
	}
	vx_assert("C18.rw.body-length-exactly-as-written", len(got) == len(body))
	for _, j := range marks {
		vx_assert("C18.rw.body-bytes-exactly-as-written", got[j] == body[j])
	}
}
