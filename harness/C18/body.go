package http3

//vx:pkg github.com/refraction-networking/uquic/http3
//vx:entry Harness_C18_body
//vx:param all maxdepth=3000
//vx:param quick frames=3 maxpayload=2
//vx:param thorough frames=4 maxpayload=2
//vx:reach Harness_C18_body C18.data C18.unknown-skipped C18.reserved-aborts C18.too-much-data C18.eof C18.exact-content-length C18.trailer

import (
	"context"
	"errors"
	"io"
	"time"

	quic "github.com/refraction-networking/uquic"
)

// scripted QUIC stream: serves a byte string in chunks of at most 'chunk' bytes, then io.EOF
type vxScripted struct {
	data                    []byte
	pos                     int
	chunk                   int
	cancelRead, cancelWrite []quic.StreamErrorCode
}

func (s *vxScripted) Read(p []byte) (int, error) {
	if s.pos >= len(s.data) {
		return 0, io.EOF
	}
	n := len(p)
	if n > s.chunk {
		n = s.chunk
	}
	if n > len(s.data)-s.pos {
		n = len(s.data) - s.pos
	}
	copy(p, s.data[s.pos:s.pos+n])
	s.pos += n
	return n, nil
}
func (s *vxScripted) Write(p []byte) (int, error)                      { return len(p), nil }
func (s *vxScripted) Close() error                                     { return nil }
func (s *vxScripted) CancelRead(c quic.StreamErrorCode)                { s.cancelRead = append(s.cancelRead, c) }
func (s *vxScripted) CancelWrite(c quic.StreamErrorCode)               { s.cancelWrite = append(s.cancelWrite, c) }
func (s *vxScripted) StreamID() quic.StreamID                          { return 0 }
func (s *vxScripted) Context() context.Context                         { return context.Background() }
func (s *vxScripted) SetDeadline(time.Time) error                      { return nil }
func (s *vxScripted) SetReadDeadline(time.Time) error                  { return nil }
func (s *vxScripted) SetWriteDeadline(time.Time) error                 { return nil }
func (s *vxScripted) SendDatagram([]byte) error                        { return nil }
func (s *vxScripted) ReceiveDatagram(context.Context) ([]byte, error)  { return nil, nil }
func (s *vxScripted) QUICStream() *quic.Stream                         { return nil }

// A response/request body read through the real http3.Stream + frame parser + body (Content-Length
// enforcement) from a scripted stream carrying DATA, unknown, reserved and HEADERS (trailer) frames with
// symbolic payloads, delivered in chunks of 1 byte or all at once, read with a 2-byte buffer.
func Harness_C18_body() {
	nf := vx_range("frames", 0, vx_param("frames"))
	var wire, want []byte
	kinds := [4]uint64{0x0, 0x21, 0x2, 0x1} // DATA, an unknown type, a reserved type, HEADERS
	sawReserved, sawTrailer, dataAfterTrailer := false, false, false
	for i := 0; i < nf; i++ {
		k := int(vx_concrete_u64(uint64(vx_choice("frameKind", 4))))
		l := int(vx_concrete_u64(uint64(vx_range("payloadLen", 0, vx_param("maxpayload")))))
		payload := vx_bytesN("payload", l)
		wire = append(wire, byte(kinds[k]), byte(l))
		wire = append(wire, payload...)
		if sawReserved || dataAfterTrailer {
			continue // nothing after the aborting frame is delivered
		}
		switch k {
		case 0:
			if sawTrailer {
				dataAfterTrailer = true
			} else {
				want = append(want, payload...)
			}
		case 2:
			sawReserved = true
		case 3:
			if sawTrailer {
				dataAfterTrailer = true // a second HEADERS frame is an error as well
			}
			sawTrailer = true
		}
	}
	chunk := 1
	if vx_bool("allAtOnce") {
		chunk = 1 << 20
	}
	raw := &vxScripted{data: wire, chunk: chunk}
	closed := 0
	var closeCode quic.ApplicationErrorCode
	str := &Stream{
		datagramStream: raw,
		buf:            make([]byte, 16),
		frameParser: &frameParser{r: raw, streamID: 0, closeConn: func(c quic.ApplicationErrorCode, _ string) error {
			closed++
			closeCode = c
			return nil
		}},
		parseTrailer: func(r io.Reader, f *headersFrame) error {
			vx_reach("C18.trailer")
			_, err := io.CopyN(io.Discard, r, int64(f.Length))
			return err
		},
	}
	cl := int64(vx_range("contentLength", -1, 4))
	b := newBody(str, cl)
	var got []byte
	var err error
	for i := 0; i < 40 && err == nil; i++ {
		buf := make([]byte, 2)
		var n int
		n, err = b.Read(buf)
		got = append(got, buf[:n]...)
	}
	vx_assert("C18.terminates", err != nil)
	// what was delivered is a prefix of the concatenated DATA payloads, in order, unaltered
	vx_assert("C18.delivered-is-prefix-of-data", len(got) <= len(want) && string(got) == string(want[:len(got)]))
	if len(got) > 0 {
		vx_reach("C18.data")
	}
	if cl >= 0 {
		vx_assert("C18.never-extended-beyond-content-length", int64(len(got)) <= cl)
		if int64(len(want)) > cl && !sawReserved {
			// more DATA than declared: reported, both directions of the stream cancelled
			if errors.Is(err, errTooMuchData) {
				vx_reach("C18.too-much-data")
				vx_assert("C18.too-much-data-cancels-stream", len(raw.cancelRead) == 1 && len(raw.cancelWrite) == 1 &&
					raw.cancelRead[0] == quic.StreamErrorCode(ErrCodeMessageError) && raw.cancelWrite[0] == quic.StreamErrorCode(ErrCodeMessageError))
			}
		}
		if int64(len(got)) == cl && int64(len(want)) == cl {
			vx_reach("C18.exact-content-length")
		}
	} else if err == io.EOF && !sawReserved && !dataAfterTrailer {
		vx_reach("C18.eof")
		vx_assert("C18.everything-delivered-without-content-length", len(got) == len(want))
	}
	if sawReserved {
		if closed > 0 {
			vx_reach("C18.reserved-aborts")
			vx_assert("C18.reserved-type-is-frame-unexpected", closeCode == quic.ApplicationErrorCode(ErrCodeFrameUnexpected))
		}
	} else {
		vx_assert("C18.unknown-types-do-not-close-the-connection", closed == 0)
		if nf > 0 {
			vx_reach("C18.unknown-skipped")
		}
	}
}
