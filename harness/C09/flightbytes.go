package quic

//vx:pkg github.com/refraction-networking/uquic
//vx:entry Harness_C09_flight_bytes Harness_C09_random_flight_bytes
//vx:param all maxdepth=4000
//vx:reach Harness_C09_flight_bytes C09.fb.built C09.fb.build-rejected C09.fb.plan-rejected C09.fb.validated C09.fb.overlap
//vx:reach Harness_C09_random_flight_bytes C09.rfb.built C09.rfb.build-rejected C09.rfb.plan-rejected C09.rfb.validated C09.rfb.padded

// at-least-once coverage over a whole flight (retransmitting a range in a second datagram is allowed)
func vxCoveredAtLeastOnce(seen *vxCryptoSeen, chLen int) {
	q := vx_u64("coverProbe")
	vx_assume(q < uint64(chLen))
	cnt := 0
	for i := 0; i < seen.k; i++ {
		cnt += vx_ite_int(vx_and(seen.off[i] <= q, q < seen.off[i]+seen.n[i]), 1, 0)
	}
	vx_assert("C09.flight.clienthello-covered-completely", cnt >= 1)
	if cnt > 1 {
		vx_reach("C09.fb.overlap")
	}
}

var vxFBOffsets = [4]int{0, 4, -5, 20}
var vxFBLengths = [5]int{0, 4, 5, -5, 30}

func vxFBRange(name string) QUICCryptoRange {
	return QUICCryptoRange{
		Offset: int(int64(vx_concrete_u64(uint64(vxFBOffsets[vx_choice(name+".offset", 4)])))),
		Length: int(int64(vx_concrete_u64(uint64(vxFBLengths[vx_choice(name+".length", 5)])))),
	}
}

// QUICFlightFrames at byte level: a two-datagram flight whose CRYPTO entries address the ClientHello by
// absolute (possibly negative, possibly out-of-range) offsets and lengths, with PING/PADDING entries around
// them, through the real BuildFlight and the packer's validateInitialFlight: whatever passes both consists
// only of PADDING/PING/CRYPTO frames, every CRYPTO frame carries the ClientHello's bytes at its true offset,
// and the flight covers the ClientHello completely; everything else is rejected with an error, no panic.
func Harness_C09_flight_bytes() {
	n := int(vx_concrete_u64(uint64([2]int{9, 12}[vx_choice("clientHelloLen", 2)])))
	ch := vx_bytesN("clienthello", n)
	r0, r1 := vxFBRange("dg0"), vxFBRange("dg1")
	dg0 := QUICFrames{QUICFrameCrypto{Offset: r0.Offset, Length: r0.Length}}
	if vx_bool("pingInFirst") {
		dg0 = append(QUICFrames{QUICFramePing{}}, dg0...)
	}
	dg1 := QUICFrames{QUICFramePadding{Length: 3}, QUICFrameCrypto{Offset: r1.Offset, Length: r1.Length}}
	f := &QUICFlightFrames{Datagrams: []QUICFrames{dg0, dg1}}
	payloads, err := f.BuildFlight(ch, nil)
	if err != nil {
		vx_reach("C09.fb.build-rejected")
		return
	}
	vx_reach("C09.fb.built")
	budgets := []InitialDatagramBudget{{MaxFrameBytes: 1162}, {MaxFrameBytes: 1162}}
	if verr := validateInitialFlight(payloads, budgets, n); verr != nil {
		vx_reach("C09.fb.plan-rejected")
		return
	}
	vx_reach("C09.fb.validated")
	vx_assert("C09.fb.one-payload-per-datagram", len(payloads) == 2)
	seen := &vxCryptoSeen{}
	for _, p := range payloads {
		vxWalk(p, ch, 0, seen)
	}
	vxCoveredAtLeastOnce(seen, n)
}

// QUICRandomFlightFrames at byte level: two datagrams with one range each, random CRYPTO cuts (every draw
// split into its values), optional PING, optional PADDING up to a total length.
func Harness_C09_random_flight_bytes() {
	vx_concretize_rand()
	n := 8
	ch := vx_bytesN("clienthello", n)
	r0, r1 := vxFBRange("dg0"), vxFBRange("dg1")
	fr := QUICRandomFrames{MinCRYPTO: 1, MaxCRYPTO: uint8(vx_concrete_u64(uint64(vx_range("maxCRYPTO", 0, 3)))), MinPING: 0, MaxPING: uint8(vx_concrete_u64(uint64(vx_choice("maxPING", 2))))}
	if vx_bool("padded") {
		fr.Length, fr.MinPADDING, fr.MaxPADDING = 16, 1, 2
		vx_reach("C09.rfb.padded")
	}
	f := &QUICRandomFlightFrames{PerDatagram: []QUICRandomFlightDatagram{{CryptoRanges: []QUICCryptoRange{r0}, Frames: fr}, {CryptoRanges: []QUICCryptoRange{r1}}}}
	payloads, err := f.BuildFlight(ch, nil)
	if err != nil {
		vx_reach("C09.rfb.build-rejected")
		return
	}
	vx_reach("C09.rfb.built")
	budgets := []InitialDatagramBudget{{MaxFrameBytes: 1162}, {MaxFrameBytes: 1162}}
	if verr := validateInitialFlight(payloads, budgets, n); verr != nil {
		vx_reach("C09.rfb.plan-rejected")
		return
	}
	vx_reach("C09.rfb.validated")
	seen := &vxCryptoSeen{}
	for _, p := range payloads {
		vxWalk(p, ch, 0, seen)
	}
	vxCoveredAtLeastOnce(seen, n)
	if fr.Length != 0 {
		vx_assert("C09.rfb.first-datagram-reaches-total-length", len(payloads[0]) >= int(fr.Length))
	}
}
