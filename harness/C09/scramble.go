package quic

//vx:pkg github.com/refraction-networking/uquic
//vx:entry Harness_C09_sni Harness_C09_scramble Harness_C09_default_split
//vx:param all maxdepth=4000
//vx:param quick snibuf=60 pops=8 snilens=3 budgets=2
//vx:param thorough snibuf=60 pops=8 snilens=3 budgets=2
//vx:reach Harness_C09_sni C09.sni.parsed C09.sni.rejected
//vx:reach Harness_C09_scramble C09.scr.scrambled C09.scr.with-ech C09.scr.drained
//vx:reach Harness_C09_default_split C09.def.drained C09.def.two-frames

import (
	"github.com/refraction-networking/uquic/internal/protocol"
)

// the ClientHello scanner on an arbitrary buffer: no out-of-range access, results inside the buffer
func Harness_C09_sni() {
	b := vx_bytes("b", vx_param("snibuf"))
	sniPos, sniLen, echPos, err := findSNIAndECH(b)
	if err != nil {
		vx_reach("C09.sni.rejected")
		return
	}
	vx_reach("C09.sni.parsed")
	vx_assert("C09.sni.position-inside-buffer", sniPos == -1 || (sniPos > 0 && sniLen >= 0 && sniPos+sniLen <= len(b)))
	vx_assert("C09.sni.ech-position-inside-buffer", echPos == -1 || (echPos > 0 && echPos+4 <= len(b)))
}

// a well-formed ClientHello with symbolic contents; SNI (and optionally ECH) at positions chosen from a lattice
func vxClientHello() []byte {
	sid := int(vx_concrete_u64(uint64([]int{0, 32}[vx_choice("sessionIDLen", 2)])))
	sniLen := int(vx_concrete_u64(uint64([]int{1, 6, 2, 11}[vx_choice("sniLen", vx_param("snilens"))])))
	withECH := vx_bool("ech")
	sniFirst := vx_bool("sniBeforeECH")
	var ext []byte
	sni := func() {
		name := vx_bytesN("sni", sniLen)
		e := []byte{0, 0, byte((sniLen + 5) >> 8), byte(sniLen + 5), byte((sniLen + 3) >> 8), byte(sniLen + 3), 0, byte(sniLen >> 8), byte(sniLen)}
		ext = append(ext, append(e, name...)...)
	}
	ech := func() {
		body := vx_bytesN("echBody", 20)
		ext = append(ext, append([]byte{0xfe, 0x0d, 0, 20}, body...)...)
	}
	other := func() { ext = append(ext, 0x00, 0x2b, 0, 3, 2, 3, 4) } // supported_versions
	if sniFirst {
		sni()
		other()
		if withECH {
			ech()
		}
	} else {
		if withECH {
			ech()
		}
		other()
		sni()
	}
	body := []byte{3, 3}
	body = append(body, vx_bytesN("random", 32)...)
	body = append(body, byte(sid))
	body = append(body, vx_bytesN("sessionID", sid)...)
	body = append(body, 0, 2, 0x13, 0x01, 1, 0)
	body = append(body, byte(len(ext)>>8), byte(len(ext)))
	body = append(body, ext...)
	ch := []byte{1, byte(len(body) >> 16), byte(len(body) >> 8), byte(len(body))}
	return append(ch, body...)
}

type vxPopped struct {
	off [12]protocol.ByteCount
	n   [12]protocol.ByteCount
	k   int
}

func vxDrain(pop func(protocol.ByteCount) (protocol.ByteCount, []byte, bool), has func() bool, truth []byte, maxPops int, exhaustive bool) *vxPopped {
	got := &vxPopped{}
	sizes := [3]protocol.ByteCount{9, 1200, 40}
	for i := 0; i < maxPops && has(); i++ {
		off, data, ok := pop(protocol.ByteCount(vx_concrete_u64(uint64(sizes[vx_choice("maxLen", vx_param("budgets"))]))))
		if !ok {
			continue // the budget was too small for a frame: the packer retries with the next packet
		}
		vx_assert("C09.pop.non-empty", len(data) > 0)
		vx_assert("C09.pop.inside-clienthello", int(off)+len(data) <= len(truth))
		if exhaustive {
			// lengths are constants on this path: check every byte (the terms are syntactically equal, no solver call)
			for j := 0; j < len(data); j++ {
				vx_assert("C09.pop.bytes-at-true-offset", data[j] == truth[int(off)+j])
			}
		} else {
			j := vx_int("probe")
			vx_assume(j >= 0 && j < len(data))
			vx_assert("C09.pop.bytes-at-true-offset", data[j] == truth[int(off)+j])
		}
		if got.k < len(got.off) {
			got.off[got.k], got.n[got.k] = off, protocol.ByteCount(len(data))
			got.k++
		}
	}
	return got
}

func (g *vxPopped) coveredOnce(total int, exhaustive bool) {
	if exhaustive {
		for q := 0; q < total; q++ {
			cnt := 0
			for i := 0; i < g.k; i++ {
				if int(g.off[i]) <= q && q < int(g.off[i]+g.n[i]) {
					cnt++
				}
			}
			vx_assert("C09.pop.clienthello-covered-exactly-once", cnt == 1)
		}
		return
	}
	q := protocol.ByteCount(vx_range("coverProbe", 0, total-1))
	cnt := 0
	for i := 0; i < g.k; i++ {
		cnt += vx_ite_int(vx_and(g.off[i] <= q, q < g.off[i]+g.n[i]), 1, 0)
	}
	vx_assert("C09.pop.clienthello-covered-exactly-once", cnt == 1)
}

// the anti-DPI scrambler: whatever the frame budgets, the frames carry every ClientHello byte once, at its offset
func Harness_C09_scramble() {
	ch := vxClientHello()
	s := newInitialCryptoStream(true)
	if vx_bool("twoWrites") {
		cut := int(vx_concrete_u64(uint64([]int{5, 50, len(ch) - 1}[vx_choice("writeCut", 3)])))
		_, err := s.Write(ch[:cut])
		vx_assert("C09.scr.write1", err == nil)
		_, err = s.Write(ch[cut:])
		vx_assert("C09.scr.write2", err == nil)
	} else {
		_, err := s.Write(ch)
		vx_assert("C09.scr.write", err == nil)
	}
	if s.scramble {
		vx_reach("C09.scr.scrambled")
		if s.cuts[1].start != protocol.InvalidByteCount {
			vx_reach("C09.scr.with-ech")
		}
	}
	got := vxDrain(func(max protocol.ByteCount) (protocol.ByteCount, []byte, bool) {
		f := s.PopCryptoFrame(max)
		if f == nil {
			return 0, nil, false
		}
		return f.Offset, f.Data, true
	}, s.HasData, ch, vx_param("pops"), true)
	if !s.HasData() {
		vx_reach("C09.scr.drained")
		got.coveredOnce(len(ch), true)
	}
}

// the default splitter
func Harness_C09_default_split() {
	n := vx_range("len", 1, 3000)
	ch := vx_bytesN("clienthello", n)
	s := newCryptoStream()
	_, err := s.Write(ch)
	vx_assert("C09.def.write", err == nil)
	got := vxDrain(func(max protocol.ByteCount) (protocol.ByteCount, []byte, bool) {
		f := s.PopCryptoFrame(max)
		if f == nil {
			return 0, nil, false
		}
		return f.Offset, f.Data, true
	}, s.HasData, ch, 4, false)
	if got.k >= 2 {
		vx_reach("C09.def.two-frames")
	}
	if !s.HasData() {
		vx_reach("C09.def.drained")
		got.coveredOnce(len(ch), false)
	}
}
