package quic

//vx:pkg github.com/refraction-networking/uquic
//vx:entry Harness_C09_resolve Harness_C09_split
//vx:param quick maxspan=6 maxframes=5
//vx:param thorough maxspan=8 maxframes=6
//vx:reach Harness_C09_resolve C09.resolve.ok C09.resolve.rejected C09.resolve.negative-offset C09.resolve.negative-length
//vx:reach Harness_C09_split C09.split.one C09.split.many C09.split.clamped

// QUICCryptoRange.resolve for every signed offset/length and every stream length: either an error or
// bounds inside the stream (so that slicing with them cannot panic and cannot reach outside the ClientHello)
func Harness_C09_resolve() {
	r := QUICCryptoRange{Offset: vx_int("offset"), Length: vx_int("length")}
	n := vx_int("streamLen")
	vx_assume(n >= 0 && n <= 1<<20)
	start, end, err := r.resolve(n)
	if err != nil {
		vx_reach("C09.resolve.rejected")
		return
	}
	vx_reach("C09.resolve.ok")
	if r.Offset < 0 {
		vx_reach("C09.resolve.negative-offset")
		vx_assert("C09.resolve.negative-offset-counts-from-end", start == n+r.Offset)
	} else {
		vx_assert("C09.resolve.offset", start == r.Offset)
	}
	if r.Length <= 0 {
		vx_reach("C09.resolve.negative-length")
		vx_assert("C09.resolve.nonpositive-length-counts-from-end", end == n+r.Length)
	} else {
		vx_assert("C09.resolve.length", end == start+r.Length)
	}
	vx_assert("C09.resolve.inside-stream", 0 <= start && start <= end && end <= n)
}

// splitRange with symbolic bounds, frame-count limits and random draws: the pieces tile [start,end)
// exactly with non-empty CRYPTO ranges; never a panic (rand.Int on <= 0, negative lengths)
func Harness_C09_split() {
	start := vx_int("start")
	end := vx_int("end")
	vx_assume(start >= 0 && start < end && end-start <= vx_param("maxspan") && end <= 1<<20)
	minN := uint64(vx_range("minFrames", 1, vx_param("maxframes")))
	maxN := uint64(vx_range("maxFrames", 1, vx_param("maxframes")))
	pieces, err := splitRange(start, end, minN, maxN)
	vx_assert("C09.split.no-error", err == nil)
	vx_assert("C09.split.at-least-one", len(pieces) >= 1)
	if len(pieces) == 1 {
		vx_reach("C09.split.one")
	} else {
		vx_reach("C09.split.many")
	}
	if minN > uint64(end-start) {
		vx_reach("C09.split.clamped")
	}
	pos := start
	for _, p := range pieces {
		off, l, isCrypto := p.CryptoFrameInfo()
		vx_assert("C09.split.crypto-only", isCrypto)
		vx_assert("C09.split.contiguous", off == pos)
		vx_assert("C09.split.non-empty", l >= 1)
		pos = off + l
	}
	vx_assert("C09.split.covers-range-exactly", pos == end)
	vx_assert("C09.split.at-most-one-frame-per-byte", len(pieces) <= end-start)
}
