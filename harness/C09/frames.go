package quic

//vx:pkg github.com/refraction-networking/uquic
//vx:entry Harness_C09_frames Harness_C09_random
//vx:param all maxdepth=4000
//vx:param quick maxentries=2 rmaxch=4 rmaxlen=12 lattice=2
//vx:param thorough maxentries=2 rmaxch=4 rmaxlen=12 lattice=2
//vx:reach Harness_C09_frames C09.frames.built C09.frames.passthrough C09.frames.datagram
//vx:reach Harness_C09_random C09.random.built C09.random.rejected C09.random.padded C09.random.two-crypto

import (
	"github.com/refraction-networking/uquic/quicvarint"
)

// vxWalk reads Initial-level frames (PADDING, PING, CRYPTO only) and checks every CRYPTO frame against
// the ClientHello ch whose first byte has absolute stream offset chBase. It returns the number of
// ClientHello bytes carried and whether all frames were valid.
type vxCryptoSeen struct {
	off [8]uint64
	n   [8]uint64
	k   int
}

func vxWalk(payload []byte, ch []byte, chBase uint64, seen *vxCryptoSeen) {
	pos := 0
	for pos < len(payload) {
		t := payload[pos]
		switch t {
		case 0x00, 0x01:
			pos++
		case 0x06:
			pos++
			off, n1, err := quicvarint.Parse(payload[pos:])
			vx_assert("C09.walk.offset-varint", err == nil)
			pos += n1
			l, n2, err := quicvarint.Parse(payload[pos:])
			vx_assert("C09.walk.length-varint", err == nil)
			pos += n2
			vx_assert("C09.walk.data-in-bounds", l <= uint64(len(payload)-pos))
			// the frame carries exactly the ClientHello bytes at its absolute offset
			vx_assert("C09.crypto-range-inside-clienthello", off >= chBase && off-chBase+l <= uint64(len(ch)))
			j := vx_u64("probe")
			vx_assume(j < l)
			vx_assert("C09.crypto-bytes-at-true-offset", payload[pos+int(j)] == ch[off-chBase+j])
			if seen.k < len(seen.off) {
				seen.off[seen.k], seen.n[seen.k] = off, l
				seen.k++
			}
			pos += int(l)
		default:
			vx_assert("C09.only-padding-ping-crypto", false)
		}
	}
}

// complete: every byte q of the ClientHello is covered by exactly one CRYPTO frame (symbolic probe q)
func vxCovered(seen *vxCryptoSeen, chBase uint64, chLen int) {
	if chLen == 0 {
		return
	}
	q := vx_u64("coverProbe")
	vx_assume(q < uint64(chLen))
	cnt := 0
	for i := 0; i < seen.k; i++ {
		cnt += vx_ite_int(vx_and(seen.off[i] <= chBase+q, chBase+q < seen.off[i]+seen.n[i]), 1, 0)
	}
	vx_assert("C09.clienthello-covered-exactly-once", cnt == 1)
}

// QUICFrames layouts that tile their slice (the documented contract): up to three CRYPTO entries plus
// optional PING / PADDING entries, used (a) per datagram with offsets relative to the slice and any base
// offset, (b) as pass-through with absolute offsets and base offset 0.
func Harness_C09_frames() {
	// CRYPTO entry lengths come from a lattice around the varint width boundaries (so the layout of the
	// output is constant on each path); the base offset is a free 62-bit value
	lattice := [5]int{1, 63, 64, 1200, 16384}
	k := vx_range("cryptoEntries", 1, vx_param("maxentries"))
	var lens [3]int
	total := 0
	for i := 0; i < k; i++ {
		lens[i] = int(vx_concrete_u64(uint64(lattice[vx_choice("lenClass", 5)])))
		total += lens[i]
	}
	ch := vx_bytesN("clienthello", total)
	passthrough := vx_bool("passthrough")
	var lowest int
	var base uint64
	if passthrough {
		vx_reach("C09.frames.passthrough")
		lowest = vx_range("lowestOffset", 0, 40000)
	} else {
		vx_reach("C09.frames.datagram")
		base = vx_u64("baseOffset")
		vx_assume(base <= 1<<62-1-uint64(len(ch)))
	}
	var qfs QUICFrames
	off := lowest
	for i := 0; i < k; i++ {
		// (the pass-through list built by MarshalInitialPacketPayload holds CRYPTO entries only, with explicit lengths)
		if !passthrough && vx_bool("pingBefore") {
			qfs = append(qfs, QUICFramePing{})
		}
		l := lens[i]
		if i == k-1 && !passthrough && vx_bool("lastLengthZero") {
			l = 0 // "the rest"
		}
		qfs = append(qfs, QUICFrameCrypto{Offset: off, Length: l})
		off += lens[i]
	}
	if !passthrough && vx_bool("padding") {
		qfs = append(qfs, QUICFramePadding{Length: vx_range("padLen", 1, 1200)})
	}
	var payload []byte
	var err error
	if passthrough {
		payload, err = qfs.Build(ch)
	} else {
		payload, err = qfs.BuildForDatagram(vx_range("datagramIdx", 0, 3), ch, base)
	}
	vx_assert("C09.frames.tiling-layout-accepted", err == nil)
	vx_reach("C09.frames.built")
	seen := &vxCryptoSeen{}
	chBase := base
	if passthrough {
		chBase = uint64(lowest)
	}
	vxWalkNoPad(payload, ch, chBase, seen)
	vxCovered(seen, chBase, len(ch))
}

// like vxWalk, but trailing PADDING (which may be long) is checked with one symbolic probe instead of a loop
func vxWalkNoPad(payload []byte, ch []byte, chBase uint64, seen *vxCryptoSeen) {
	pos := 0
	for pos < len(payload) {
		t := payload[pos]
		if t == 0x00 {
			j := vx_int("padProbe")
			vx_assume(j >= pos && j < len(payload))
			vx_assert("C09.walk.trailing-padding-is-zero", payload[j] == 0)
			return
		}
		if t == 0x01 {
			pos++
			continue
		}
		vx_assert("C09.only-padding-ping-crypto", t == 0x06)
		pos++
		off, n1, err := quicvarint.Parse(payload[pos:])
		vx_assert("C09.walk.offset-varint", err == nil)
		pos += n1
		l, n2, err := quicvarint.Parse(payload[pos:])
		vx_assert("C09.walk.length-varint", err == nil)
		pos += n2
		vx_assert("C09.walk.data-in-bounds", l <= uint64(len(payload)-pos))
		vx_assert("C09.crypto-range-inside-clienthello", off >= chBase && off-chBase+l <= uint64(len(ch)))
		if l > 0 {
			j := vx_u64("probe")
			vx_assume(j < l)
			vx_assert("C09.crypto-bytes-at-true-offset", payload[pos+int(j)] == ch[off-chBase+j])
		}
		if seen.k < len(seen.off) {
			seen.off[seen.k], seen.n[seen.k] = off, l
			seen.k++
		}
		pos += int(l)
	}
}

// QUICRandomFrames with every parameter and every random draw symbolic (counts bounded), any base offset:
// either an error or a complete, exact framing; never a panic.
func Harness_C09_random() {
	vx_concretize_rand() // every draw is case-split: frame counts and lengths are constants on each path
	chLens := [4]int{0, 1, vx_param("rmaxch"), 2}
	ch := vx_bytesN("clienthello", chLens[vx_choice("chLen", 1+vx_param("lattice"))])
	// parameters from small lattices that include the degenerate settings (Min > Max, Min == Max, zero
	// counts, Length smaller / larger than the frames); the random draws are split into all their values
	mins := [3]uint8{0, 1, 2}
	maxs := [4]uint8{1, 3, 0, 2}
	lens := [4]uint16{0, uint16(vx_param("rmaxlen")), 3, 9}
	w := vx_param("lattice") // how much of each lattice is used
	spec := &QUICRandomFrames{
		MinPING: mins[vx_choice("minPING", 1+w/2)], MaxPING: maxs[vx_choice("maxPING", w)],
		MinCRYPTO: mins[vx_choice("minCRYPTO", w)], MaxCRYPTO: maxs[vx_choice("maxCRYPTO", w)],
		MinPADDING: mins[vx_choice("minPADDING", w)], MaxPADDING: maxs[vx_choice("maxPADDING", w)],
		Length: lens[vx_choice("length", w)],
	}
	base := vx_u64("baseOffset")
	vx_assume(base <= 1<<62-1-uint64(len(ch)))
	payload, err := spec.BuildForDatagram(0, ch, base)
	if err != nil {
		vx_reach("C09.random.rejected")
		return
	}
	vx_reach("C09.random.built")
	seen := &vxCryptoSeen{}
	vxWalk(payload, ch, base, seen)
	if seen.k >= 2 {
		vx_reach("C09.random.two-crypto")
	}
	vxCovered(seen, base, len(ch))
	if len(ch) == 0 {
		return
	}
	if int(spec.Length) > len(payload) {
		vx_assert("C09.random.never-shorter-than-length-when-padded", false)
	}
	if len(payload) == int(spec.Length) {
		vx_reach("C09.random.padded")
	}
}
