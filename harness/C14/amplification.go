package ackhandler

//vx:pkg github.com/refraction-networking/uquic/internal/ackhandler
//vx:entry Harness_C14_amplification
//vx:param quick steps=4
//vx:param thorough steps=5
//vx:reach Harness_C14_amplification C14.limited C14.sent C14.validated C14.timer-cancelled C14.zero-rtt

import (
	"time"

	"github.com/refraction-networking/uquic/internal/monotime"
	"github.com/refraction-networking/uquic/internal/protocol"
	"github.com/refraction-networking/uquic/internal/utils"
	"github.com/refraction-networking/uquic/internal/wire"
)

type vxCong14 struct{}

func (vxCong14) TimeUntilSend(protocol.ByteCount) monotime.Time { return 0 }
func (vxCong14) HasPacingBudget(monotime.Time) bool             { return true }
func (vxCong14) OnPacketSent(monotime.Time, protocol.ByteCount, protocol.PacketNumber, protocol.ByteCount, bool) {
}
func (vxCong14) CanSend(protocol.ByteCount) bool { return true }
func (vxCong14) MaybeExitSlowStart()             {}
func (vxCong14) OnPacketAcked(protocol.PacketNumber, protocol.ByteCount, protocol.ByteCount, monotime.Time) {
}
func (vxCong14) OnCongestionEvent(protocol.PacketNumber, protocol.ByteCount, protocol.ByteCount) {}
func (vxCong14) OnRetransmissionTimeout(bool)                                                    {}
func (vxCong14) SetMaxDatagramSize(protocol.ByteCount)                                           {}
func (vxCong14) InSlowStart() bool                                                               { return false }
func (vxCong14) InRecovery() bool                                                                { return false }
func (vxCong14) GetCongestionWindow() protocol.ByteCount                                         { return 1 << 30 }

// A server whose client address is not validated: it sends only when SendMode allows (the
// connection's discipline). At every point: bytes sent <= 3 * bytes received + the one packet that
// was permitted when the limit was reached. Only a Handshake packet from the client lifts the limit.
func Harness_C14_amplification() {
	rtt := utils.NewRTTStats()
	sph := NewSentPacketHandler(0, 1200, rtt, &utils.ConnectionStats{}, false, false, nil, protocol.PerspectiveServer, nil, utils.DefaultLogger)
	h := sph.(*sentPacketHandler)
	h.congestion = vxCong14{}
	var received, sent, lastPkt protocol.ByteCount
	validated := false
	now := monotime.Time(3600e9)
	steps := vx_param("steps")
	for step := 0; step < steps; step++ {
		now = now.Add(time.Duration(vx_choice("dtMs", 2)) * 300 * time.Millisecond)
		switch vx_choice("op", 5) {
		case 0: // a datagram of n bytes arrives from the (unvalidated) address
			n := protocol.ByteCount(vx_range("rcvd", 1, 1500))
			h.ReceivedBytes(n, now)
			received += n
		case 1: // the connection wants to send: it asks SendMode first
			mode := h.SendMode(now)
			if mode == SendNone {
				vx_reach("C14.limited")
				vx_assert("C14.none-only-when-limited", vx_or(validated, sent >= 3*received))
				if alarm := h.GetLossDetectionTimeout(); alarm.IsZero() {
					vx_reach("C14.timer-cancelled")
				}
				continue
			}
			lvl := protocol.EncryptionInitial
			if vx_bool("handshakeLevel") {
				lvl = protocol.EncryptionHandshake
			}
			size := protocol.ByteCount(vx_range("size", 1, 1452))
			pn := h.PopPacketNumber(lvl)
			var frames []Frame
			if vx_bool("ackEliciting") {
				frames = []Frame{{Frame: &wire.PingFrame{}}}
			}
			// before this packet the budget was not exhausted
			vx_assert("C14.send-only-within-budget", vx_or(validated, sent < 3*received))
			h.SentPacket(now, pn, protocol.InvalidPacketNumber, nil, frames, lvl, protocol.ECNNon, size, false, false)
			sent += size
			lastPkt = size
			vx_reach("C14.sent")
			vx_assert("C14.three-times-plus-one-packet", vx_or(validated, sent <= 3*received+lastPkt))
		case 2: // a packet of some encryption level was successfully processed
			lvl := protocol.EncryptionLevel(vx_range("rcvLevel", int(protocol.EncryptionInitial), int(protocol.Encryption1RTT)))
			h.ReceivedPacket(lvl, now)
			if lvl == protocol.EncryptionHandshake {
				validated = true
				vx_reach("C14.validated")
			}
			if lvl == protocol.Encryption0RTT {
				vx_reach("C14.zero-rtt")
			}
		case 3: // loss-detection timer
			alarm := h.GetLossDetectionTimeout()
			if alarm.IsZero() {
				continue
			}
			// (a timer armed before the limit was reached may still fire; what matters is that the
			// probes it asks for are not sent while limited — asserted below)
			if alarm.After(now) {
				now = alarm
			}
			h.OnLossDetectionTimeout(now)
		case 4: // ACK for everything sent in Initial
			largest := h.initialPackets.largestSent
			if largest == protocol.InvalidPacketNumber {
				continue
			}
			h.ReceivedAck(&wire.AckFrame{AckRanges: []wire.AckRange{{Smallest: 0, Largest: largest}}}, protocol.EncryptionInitial, now)
		}
		// PTO / probe modes never override the amplification limit
		if !validated && sent >= 3*received {
			vx_assert("C14.limit-overrides-probes", h.SendMode(now) == SendNone)
		}
	}
}
