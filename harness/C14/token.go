package quic

//vx:pkg github.com/refraction-networking/uquic
//vx:overlay internal/handshake/zz_vx_token_helper.go token_helper.go.txt
//vx:entry Harness_C14_token
//vx:reach Harness_C14_token C14.tok.accepted C14.tok.wrong-address C14.tok.expired

import (
	"net"
	"time"

	"github.com/refraction-networking/uquic/internal/handshake"
)

// A decoded token (any kind, any age, issued for any IP) presented from any IP: it is accepted iff
// the addresses are equal and the age is within the lifetime of its kind.
func Harness_C14_token() {
	maxTokenAge := time.Duration(vx_range("maxTokenAgeS", 1, 86400)) * time.Second
	s := &baseServer{config: populateConfig(&Config{}), maxTokenAge: maxTokenAge}
	retryAge := s.config.maxRetryTokenAge()
	lenOf := func(name string) int {
		if vx_bool(name) {
			return 16
		}
		return 4
	}
	issued := net.IP(vx_bytesN("issuedIP", lenOf("issuedV6")))
	present := net.IP(vx_bytesN("presentIP", lenOf("presentV6")))
	isRetry := vx_bool("isRetry")
	age := time.Duration(vx_i64("ageNs"))
	vx_assume(age >= 0 && age < 1000*time.Hour)
	tok := handshake.VxMakeToken(isRetry, time.Now().Add(-age), handshake.VxEncodeRemoteAddr(&net.UDPAddr{IP: issued, Port: vx_range("issuedPort", 1, 65535)}))
	ok := s.validateToken(tok, &net.UDPAddr{IP: present, Port: vx_range("presentPort", 1, 65535)})
	sameAddr := len(issued) == len(present)
	if sameAddr {
		eq := true
		for i := range issued {
			eq = vx_and(eq, issued[i] == present[i])
		}
		sameAddr = eq
	}
	lifetime := maxTokenAge
	if isRetry {
		lifetime = retryAge
	}
	fresh := age <= lifetime
	if ok {
		vx_reach("C14.tok.accepted")
	} else if !sameAddr {
		vx_reach("C14.tok.wrong-address")
	} else {
		vx_reach("C14.tok.expired")
	}
	vx_assert("C14.tok.valid-only-for-its-address", vx_implies(ok, sameAddr))
	vx_assert("C14.tok.valid-only-within-lifetime", vx_implies(ok, fresh))
	vx_assert("C14.tok.genuine-token-accepted", vx_implies(vx_and(sameAddr, fresh), ok))
	vx_assert("C14.tok.nil-token-rejected", !s.validateToken(nil, &net.UDPAddr{IP: present}))
}
