package quic

//vx:pkg github.com/refraction-networking/uquic
//vx:entry Harness_C07_callsite
//vx:param all maxdepth=3000
//vx:param quick packets=3
//vx:param thorough packets=5
//vx:reach Harness_C07_callsite C07.cs.processed C07.cs.duplicate-dropped C07.cs.long-header C07.cs.short-header C07.cs.duplicate-long C07.cs.duplicate-short

import (
	"github.com/refraction-networking/uquic/internal/ackhandler"
	"github.com/refraction-networking/uquic/internal/monotime"
	"github.com/refraction-networking/uquic/internal/protocol"
	"github.com/refraction-networking/uquic/internal/utils"
	"github.com/refraction-networking/uquic/internal/wire"
)

// scripted unpacker: packet protection removed, the packet number / level / payload as the harness says
type vxDupUnpacker struct {
	pn   protocol.PacketNumber
	lvl  protocol.EncryptionLevel
	data []byte
}

func (u *vxDupUnpacker) UnpackLongHeader(hdr *wire.Header, data []byte) (*unpackedPacket, error) {
	return &unpackedPacket{hdr: &wire.ExtendedHeader{Header: *hdr, PacketNumber: u.pn, PacketNumberLen: 2}, encryptionLevel: u.lvl, data: u.data}, nil
}
func (u *vxDupUnpacker) UnpackShortHeader(monotime.Time, []byte) (protocol.PacketNumber, protocol.PacketNumberLen, protocol.KeyPhaseBit, []byte, error) {
	return u.pn, 2, protocol.KeyPhaseZero, u.data, nil
}

type vxDupSPH struct {
	ackhandler.SentPacketHandler
	received int
}

func (h *vxDupSPH) ReceivedPacket(protocol.EncryptionLevel, monotime.Time) { h.received++ }

// The call sites that make "its frames are not processed a second time" true: the real
// Conn.handleLongHeaderPacket / handleShortHeaderPacket (client) with the real receivedPacketHandler behind a
// scripted unpacker: any sequence of packets (Initial, Handshake, 1-RTT; packet numbers from a small range so
// that repeats occur; duplicates, reordering): a packet number seen before in its space is dropped before its
// frames are handled, a new one is processed exactly once.
func Harness_C07_callsite() {
	un := &vxDupUnpacker{}
	sph := &vxDupSPH{}
	scid := protocol.ParseConnectionID([]byte{5, 5, 5, 5})
	c := &Conn{
		perspective:           protocol.PerspectiveClient,
		srcConnIDLen:          4,
		unpacker:              un,
		sentPacketHandler:     sph,
		receivedPacketHandler: *ackhandler.NewReceivedPacketHandler(utils.DefaultLogger),
		frameParser:           *wire.NewFrameParser(false, false, false),
		logger:                utils.DefaultLogger,
		version:               protocol.Version1,
		config:                populateConfig(&Config{}),
		handshakeDestConnID:   scid,
		receivedFirstPacket:   true,
	}
	var seen [3][6]bool // by space (Initial, Handshake, 1-RTT) and packet number
	n := vx_param("packets")
	now := monotime.Time(3600e9)
	for i := 0; i < n; i++ {
		now = now.Add(1e6)
		space := int(vx_concrete_u64(uint64(vx_choice("space", 3))))
		pn := int(vx_concrete_u64(uint64(vx_range("pn", 0, 5))))
		un.pn = protocol.PacketNumber(pn)
		un.data = []byte{0x01} // PING
		before := sph.received
		buf := getPacketBuffer()
		var processed bool
		var err error
		if space == 2 {
			vx_reach("C07.cs.short-header")
			buf.Data = append(buf.Data[:0], 0x40, 9, 9, 9, 9, 0, 0, 0x01)
			processed, err = c.handleShortHeaderPacket(receivedPacket{data: buf.Data, buffer: buf, rcvTime: now}, false, 0)
		} else {
			vx_reach("C07.cs.long-header")
			typ, lvl := protocol.PacketTypeInitial, protocol.EncryptionInitial
			if space == 1 {
				typ, lvl = protocol.PacketTypeHandshake, protocol.EncryptionHandshake
			}
			un.lvl = lvl
			hdr := &wire.Header{Type: typ, Version: protocol.Version1, SrcConnectionID: scid, DestConnectionID: protocol.ParseConnectionID([]byte{9, 9, 9, 9})}
			buf.Data = append(buf.Data[:0], 0xc0, 0, 0, 0, 1)
			processed, err = c.handleLongHeaderPacket(receivedPacket{data: buf.Data, buffer: buf, rcvTime: now}, hdr, 0)
		}
		vx_assert("C07.cs.no-error", err == nil)
		if seen[space][pn] {
			vx_reach("C07.cs.duplicate-dropped")
			if space == 2 {
				vx_reach("C07.cs.duplicate-short")
			} else {
				vx_reach("C07.cs.duplicate-long")
			}
			vx_assert("C07.cs.duplicate-not-processed", !processed && sph.received == before)
		} else {
			vx_reach("C07.cs.processed")
			vx_assert("C07.cs.new-packet-processed-once", processed && sph.received == before+1)
			seen[space][pn] = true
		}
	}
}
