package ackhandler

//vx:pkg github.com/refraction-networking/uquic/internal/ackhandler
//vx:entry Harness_C07_history_step
//vx:entry-thorough Harness_C07_history_full
//vx:param quick nranges=3
//vx:param thorough nranges=4
//vx:reach Harness_C07_history_step C07.step.received C07.step.deleted C07.step.merged
//vx:reach Harness_C07_history_full C07.full.pruned

import (
	"github.com/refraction-networking/uquic/internal/protocol"
)

// One inductive step on receivedPacketHistory from an ARBITRARY valid state (this is what covers
// histories longer than any bounded sequence): the representation invariant and the set semantics
// are preserved by ReceivedPacket and DeleteBelow.

func vxHistInv(h *receivedPacketHistory, floor protocol.PacketNumber) bool {
	ok := len(h.ranges) <= protocol.MaxNumAckRanges
	for i, r := range h.ranges {
		ok = vx_and(ok, vx_and(r.Start <= r.End, r.Start >= 0))
		ok = vx_and(ok, r.Start >= floor)
		ok = vx_and(ok, r.End < 1<<62)
		if i > 0 {
			ok = vx_and(ok, h.ranges[i-1].End+1 < r.Start)
		}
	}
	return ok
}

func vxHistMember(rs []interval, q protocol.PacketNumber) bool {
	m := false
	for _, r := range rs {
		m = vx_or(m, vx_and(q >= r.Start, q <= r.End))
	}
	return m
}

// arbitrary valid state with n ranges and forget threshold d (d may be "none")
func vxArbitraryHistory(n int) (*receivedPacketHistory, protocol.PacketNumber) {
	h := newReceivedPacketHistory()
	floor := protocol.PacketNumber(0)
	if vx_bool("hasDeletedBelow") {
		d := protocol.PacketNumber(vx_i64("deletedBelow"))
		vx_assume(d >= 0 && d < 1<<62)
		h.DeleteBelow(d) // no ranges yet: only records the threshold
		floor = d
	}
	for i := 0; i < n; i++ {
		s := protocol.PacketNumber(vx_i64("start"))
		e := protocol.PacketNumber(vx_i64("end"))
		h.ranges = append(h.ranges, interval{Start: s, End: e})
	}
	vx_assume(vxHistInv(h, floor))
	return h, floor
}

func Harness_C07_history_step() {
	n := vx_choice("n", vx_param("nranges")+1)
	h, floor := vxArbitraryHistory(n)
	before := make([]interval, len(h.ranges))
	copy(before, h.ranges)
	q := protocol.PacketNumber(vx_i64("probe"))
	vx_assume(q >= 0 && q < 1<<62)
	p := protocol.PacketNumber(vx_i64("p"))
	vx_assume(p >= 0 && p < 1<<62)
	if vx_bool("opDelete") {
		vx_reach("C07.step.deleted")
		h.DeleteBelow(p)
		nf := floor
		if p > nf {
			nf = p
		}
		vx_assert("C07.step.delete-inv", vxHistInv(h, nf))
		vx_assert("C07.step.delete-set", vxHistMember(h.ranges, q) == vx_and(vxHistMember(before, q), q >= nf))
		vx_assert("C07.step.delete-dup", h.IsPotentiallyDuplicate(q) == vx_or(q < nf, vxHistMember(before, q)))
		return
	}
	vx_reach("C07.step.received")
	isNew := h.ReceivedPacket(p)
	if len(h.ranges) < len(before) {
		vx_reach("C07.step.merged")
	}
	vx_assert("C07.step.recv-inv", vxHistInv(h, floor))
	vx_assert("C07.step.recv-isnew", isNew == vx_and(p >= floor, !vxHistMember(before, p)))
	want := vx_or(vxHistMember(before, q), vx_and(q == p, p >= floor))
	vx_assert("C07.step.recv-set", vxHistMember(h.ranges, q) == want)
	vx_assert("C07.step.recv-dup", h.IsPotentiallyDuplicate(q) == vx_or(q < floor, want))
	// the ranges handed to the ACK builder are the same set, highest first
	prev := protocol.PacketNumber(1 << 62)
	cnt := 0
	okOrder := true
	for r := range h.Backward() {
		okOrder = vx_and(okOrder, r.End < prev)
		prev = r.Start
		cnt++
	}
	vx_assert("C07.step.backward", vx_and(okOrder, cnt == len(h.ranges)))
}

// a history holding exactly MaxNumAckRanges ranges: a packet that opens one more range drops the
// lowest one and nothing else (the peer is told less, never something false)
func Harness_C07_history_full() {
	h := newReceivedPacketHistory()
	base := protocol.PacketNumber(vx_i64("base"))
	vx_assume(base >= 0 && base < 1<<40)
	for i := 0; i < protocol.MaxNumAckRanges; i++ {
		h.ranges = append(h.ranges, interval{Start: base + protocol.PacketNumber(3*i), End: base + protocol.PacketNumber(3*i)})
	}
	before := make([]interval, len(h.ranges))
	copy(before, h.ranges)
	p := protocol.PacketNumber(vx_i64("p"))
	vx_assume(p >= 0 && p < 1<<41)
	q := protocol.PacketNumber(vx_i64("probe"))
	vx_assume(q >= 0 && q < 1<<62)
	isNew := h.ReceivedPacket(p)
	vx_assert("C07.full.bounded", len(h.ranges) <= protocol.MaxNumAckRanges)
	vx_assert("C07.full.inv", vxHistInv(h, 0))
	vx_assert("C07.full.isnew", isNew == !vxHistMember(before, p))
	// sound: nothing is reported that was not received
	vx_assert("C07.full.sound", vx_implies(vxHistMember(h.ranges, q), vx_or(vxHistMember(before, q), q == p)))
	// only the lowest range may be forgotten
	if len(h.ranges) == protocol.MaxNumAckRanges && isNew {
		lost := vx_and(vx_or(vxHistMember(before, q), q == p), !vxHistMember(h.ranges, q))
		if p > before[0].End+1 || p < before[0].Start-1 {
			vx_reach("C07.full.pruned")
		}
		vx_assert("C07.full.only-lowest-dropped", vx_implies(lost, vx_or(q <= before[0].End, vx_and(q == p, p < before[0].Start))))
	}
}
