package ackhandler

//vx:pkg github.com/refraction-networking/uquic/internal/ackhandler
//vx:entry Harness_C07_appdata Harness_C07_initial
//vx:param quick steps=3
//vx:param thorough steps=3
//vx:reach Harness_C07_appdata C07.ack C07.ack-2ranges C07.dup C07.immediate C07.delayed C07.alarm-fired C07.ignored
//vx:reach Harness_C07_initial C07.init-ack C07.init-dup

import (
	"github.com/refraction-networking/uquic/internal/monotime"
	"github.com/refraction-networking/uquic/internal/protocol"
	"github.com/refraction-networking/uquic/internal/utils"
	"github.com/refraction-networking/uquic/internal/wire"
)

const vxMaxPkts = 8

type vxRecvGhost struct {
	pns  [vxMaxPkts]protocol.PacketNumber
	n    int
	ign  protocol.PacketNumber // largest IgnorePacketsBelow so far
	// copy of the last ACK sent
	haveLast    bool
	lastRanges  [vxMaxPkts]wire.AckRange
	lastN       int
	sinceLast   int // ack-eliciting packets since the last ACK was sent
	largestSeen protocol.PacketNumber
	anySeen     bool
	ackLargest  [vxMaxPkts]protocol.PacketNumber // LargestAcked of every ACK sent so far
	nAcks       int
}

func (g *vxRecvGhost) received(q protocol.PacketNumber) bool {
	r := false
	for i := 0; i < g.n; i++ {
		r = vx_or(r, g.pns[i] == q)
	}
	return r
}

func (g *vxRecvGhost) lastAcks(q protocol.PacketNumber) bool {
	r := false
	for i := 0; i < g.lastN; i++ {
		r = vx_or(r, vx_and(q >= g.lastRanges[i].Smallest, q <= g.lastRanges[i].Largest))
	}
	return r
}

func vxAcks(ack *wire.AckFrame, q protocol.PacketNumber) bool {
	r := false
	for _, ar := range ack.AckRanges {
		r = vx_or(r, vx_and(q >= ar.Smallest, q <= ar.Largest))
	}
	return r
}

// well-formed: descending, disjoint, non-adjacent ranges, each non-empty
func vxCheckRanges(ack *wire.AckFrame) {
	vx_assert("C07.ranges-nonempty", len(ack.AckRanges) > 0)
	ok := true
	for i, ar := range ack.AckRanges {
		ok = vx_and(ok, ar.Smallest <= ar.Largest)
		ok = vx_and(ok, ar.Smallest >= 0)
		if i > 0 {
			// previous (higher) range must lie strictly above with a gap of at least one
			ok = vx_and(ok, ack.AckRanges[i-1].Smallest > ar.Largest+1)
		}
	}
	vx_assert("C07.ranges-wellformed", ok)
}

func (g *vxRecvGhost) checkAck(ack *wire.AckFrame) {
	vx_reach("C07.ack")
	if len(ack.AckRanges) >= 2 {
		vx_reach("C07.ack-2ranges")
	}
	vxCheckRanges(ack)
	// soundness: any acknowledged number was received and is not below the forget threshold
	q := protocol.PacketNumber(vx_i64("probe"))
	vx_assert("C07.ack-sound", vx_implies(vxAcks(ack, q), vx_and(g.received(q), q >= g.ign)))
	// completeness within the tracked history (fewer than MaxNumAckRanges ranges here):
	// every received number not below the threshold is acknowledged
	all := true
	for i := 0; i < g.n; i++ {
		all = vx_and(all, vx_implies(g.pns[i] >= g.ign, vxAcks(ack, g.pns[i])))
	}
	vx_assert("C07.ack-complete", all)
	// the first range contains the largest received
	vx_assert("C07.ack-largest", vx_implies(g.largestSeen >= g.ign, ack.LargestAcked() == g.largestSeen))
	// remember it
	if g.nAcks < vxMaxPkts {
		g.ackLargest[g.nAcks] = ack.LargestAcked()
		g.nAcks++
	}
	g.haveLast = true
	g.lastN = 0
	for _, ar := range ack.AckRanges {
		if g.lastN < vxMaxPkts {
			g.lastRanges[g.lastN] = ar
			g.lastN++
		}
	}
	g.sinceLast = 0
}

func Harness_C07_appdata() {
	h := NewReceivedPacketHandler(utils.DefaultLogger)
	g := &vxRecvGhost{}
	now := monotime.Time(vx_i64("t0"))
	vx_assume(now > 0 && now < 1<<50)
	steps := vx_param("steps")
	for step := 0; step < steps; step++ {
		dt := vx_i64("dt")
		vx_assume(dt >= 0 && dt < 1<<40)
		now += monotime.Time(dt)
		// whenever the alarm has expired an ACK must be obtainable (the connection's timer would fire)
		if alarm := h.GetAlarmTimeout(); alarm != 0 && !alarm.After(now) {
			vx_reach("C07.alarm-fired")
			ack := h.GetAckFrame(protocol.Encryption1RTT, now, true)
			vx_assert("C07.ack-on-alarm", ack != nil)
			g.checkAck(ack)
		}
		switch vx_choice("op", 4) {
		case 0: // a packet arrives; connection.go drops it first if it may be a duplicate
			pn := protocol.PacketNumber(vx_i64("pn"))
			vx_assume(pn >= 0 && pn < 1<<62)
			if h.IsPotentiallyDuplicate(pn, protocol.Encryption1RTT) {
				vx_reach("C07.dup")
				// only numbers received before, or below the forget threshold, may be treated as duplicates
				vx_assert("C07.dup-sound", vx_or(g.received(pn), pn < g.ign))
				continue
			}
			vx_assert("C07.dup-complete", !g.received(pn))
			ae := vx_bool("ackEliciting")
			ecn := protocol.ECN(vx_choice("ecn", 4))
			wasMissing := vx_and(vx_and(g.haveLast, pn >= g.ign), vx_and(g.lastN > 0, vx_and(pn < g.lastRanges[0].Largest, !g.lastAcks(pn))))
			newGap := vx_and(g.haveLast, vx_and(g.anySeen, vx_and(pn > g.largestSeen+1, pn-1 >= g.ign)))
			err := h.ReceivedPacket(pn, ecn, protocol.Encryption1RTT, now, ae)
			vx_assert("C07.no-dup-processing", err == nil)
			if g.n >= vxMaxPkts {
				vx_stop()
			}
			g.pns[g.n] = pn
			g.n++
			if !g.anySeen || pn > g.largestSeen {
				g.largestSeen = pn
				g.anySeen = true
			}
			vx_assert("C07.dup-remembered", h.IsPotentiallyDuplicate(pn, protocol.Encryption1RTT))
			if !ae {
				continue
			}
			g.sinceLast++
			mustBeImmediate := vx_or(vx_or(g.sinceLast >= 2, ecn == protocol.ECNCE), vx_or(wasMissing, newGap))
			alarm := h.GetAlarmTimeout()
			if alarm == 0 {
				// no timer: the ACK must be queued now
				vx_reach("C07.immediate")
				ack := h.GetAckFrame(protocol.Encryption1RTT, now, true)
				vx_assert("C07.ack-queued-or-timer", ack != nil)
				vx_assert("C07.ack-covers-packet", vxAcks(ack, pn))
				g.checkAck(ack)
			} else {
				vx_reach("C07.delayed")
				vx_assert("C07.ack-due-within-max-delay", alarm <= now.Add(protocol.MaxAckDelay))
				vx_assert("C07.immediate-when-required", !mustBeImmediate)
			}
		case 1:
			// The caller's contract (sent_packet_handler.go): the threshold is LargestAcked+1 of an ACK
			// frame this endpoint sent earlier and the peer has acknowledged.
			if g.nAcks == 0 {
				continue
			}
			p := g.ackLargest[vx_choice("which-ack", g.nAcks)] + 1
			h.IgnorePacketsBelow(p)
			if p > g.ign {
				g.ign = p
			}
			vx_reach("C07.ignored")
		case 2:
			if ack := h.GetAckFrame(protocol.Encryption1RTT, now, vx_bool("onlyIfQueued")); ack != nil {
				g.checkAck(ack)
			}
		case 3:
			vx_stop()
		}
	}
}

// Initial and Handshake spaces: every ack-eliciting packet can be acknowledged immediately.
func Harness_C07_initial() {
	h := NewReceivedPacketHandler(utils.DefaultLogger)
	g := &vxRecvGhost{}
	lvl := protocol.EncryptionInitial
	if vx_bool("handshake") {
		lvl = protocol.EncryptionHandshake
	}
	steps := vx_param("steps")
	for step := 0; step < steps; step++ {
		pn := protocol.PacketNumber(vx_i64("pn"))
		vx_assume(pn >= 0 && pn < 1<<62)
		if h.IsPotentiallyDuplicate(pn, lvl) {
			vx_reach("C07.init-dup")
			vx_assert("C07.init-dup-sound", g.received(pn))
			continue
		}
		vx_assert("C07.init-dup-complete", !g.received(pn))
		ae := vx_bool("ackEliciting")
		err := h.ReceivedPacket(pn, protocol.ECNNon, lvl, 1, ae)
		vx_assert("C07.init-no-dup-processing", err == nil)
		g.pns[g.n] = pn
		g.n++
		if !g.anySeen || pn > g.largestSeen {
			g.largestSeen = pn
			g.anySeen = true
		}
		if ae {
			ack := h.GetAckFrame(lvl, 1, true)
			vx_assert("C07.init-ack-immediately", ack != nil)
			vx_reach("C07.init-ack")
			g.checkAck(ack)
		}
	}
}
