package wire

//vx:pkg github.com/refraction-networking/uquic/internal/wire
//vx:entry Harness_C08_long_header Harness_C08_short_header Harness_C08_header_misc
//vx:entry-thorough Harness_C08_long_header_roundtrip
//vx:param quick n=48 nrt=20
//vx:param thorough n=80 nrt=20
//vx:reach Harness_C08_long_header_roundtrip C08.hdr.roundtrip
//vx:reach Harness_C08_long_header C08.hdr.parsed C08.hdr.rejected C08.hdr.extended C08.hdr.unsupported-version C08.hdr.initial-with-token
//vx:reach Harness_C08_short_header C08.short.parsed C08.short.rejected
//vx:reach Harness_C08_header_misc C08.misc.vn-parsed C08.misc.connid

import (
	"errors"

	"github.com/refraction-networking/uquic/internal/protocol"
)

// any byte string as a long-header packet
func Harness_C08_long_header() { vxLongHeader(vx_param("n"), false) }

// the same on a shorter buffer, followed by encode -> parse -> compare
func Harness_C08_long_header_roundtrip() { vxLongHeader(vx_param("nrt"), true) }

func vxLongHeader(n int, roundtrip bool) {
	b := vx_bytes("b", n)
	hdr, packet, rest, err := ParsePacket(b)
	if err != nil {
		vx_reach("C08.hdr.rejected")
		if errors.Is(err, ErrUnsupportedVersion) {
			vx_reach("C08.hdr.unsupported-version")
			vx_assert("C08.hdr.unsupported-version-still-yields-connection-ids", hdr != nil && hdr.DestConnectionID.Len() <= 20 && hdr.SrcConnectionID.Len() <= 20)
		}
		return
	}
	vx_reach("C08.hdr.parsed")
	vx_assert("C08.hdr.packet-cut-in-bounds", len(packet)+len(rest) == len(b) && len(packet) >= 7)
	vx_assert("C08.hdr.parsed-len-in-bounds", hdr.ParsedLen() >= 7 && int(hdr.ParsedLen()) <= len(packet))
	vx_assert("C08.hdr.connection-id-lengths", hdr.DestConnectionID.Len() <= 20 && hdr.SrcConnectionID.Len() <= 20)
	vx_assert("C08.hdr.packet-length-is-header-plus-length-field", protocol.ByteCount(len(packet)) == hdr.ParsedLen()+hdr.Length || hdr.Version == 0 || hdr.Type == protocol.PacketTypeRetry)
	if hdr.Version == 0 || hdr.Type == protocol.PacketTypeRetry {
		return
	}
	if hdr.Type == protocol.PacketTypeInitial && len(hdr.Token) > 0 {
		vx_reach("C08.hdr.initial-with-token")
	}
	ext, err := hdr.ParseExtended(packet)
	if err != nil && err != ErrInvalidReservedBits {
		return
	}
	vx_reach("C08.hdr.extended")
	vx_assert("C08.hdr.ext-parsed-len", ext.ParsedLen() == hdr.ParsedLen()+protocol.ByteCount(ext.PacketNumberLen) && int(ext.ParsedLen()) <= len(packet))
	vx_assert("C08.hdr.pn-len", ext.PacketNumberLen >= 1 && ext.PacketNumberLen <= 4)
	vx_assert("C08.hdr.pn-in-range", ext.PacketNumber >= 0 && ext.PacketNumber < 1<<(8*uint(ext.PacketNumberLen)))
	if hdr.Length > 16383 || !roundtrip {
		return // the encoder writes the Length field in two bytes
	}
	vx_concrete_u64(uint64(len(hdr.Token))) // case split: the layout of the re-encoded header is then constant
	vx_reach("C08.hdr.roundtrip")
	// encode and parse again: the same header
	out, err := ext.Append(nil, hdr.Version)
	vx_assert("C08.hdr.append-ok", err == nil)
	vx_assert("C08.hdr.length-prediction", protocol.ByteCount(len(out)) == ext.GetLength(hdr.Version))
	// pad with the payload so that ParsePacket's length check passes
	full := append(out, make([]byte, int(hdr.Length)-int(ext.PacketNumberLen))...)
	if int(hdr.Length) < int(ext.PacketNumberLen) {
		return
	}
	hdr2, packet2, _, err2 := ParsePacket(full)
	vx_assert("C08.hdr.reparse-ok", err2 == nil)
	ext2, err3 := hdr2.ParseExtended(packet2)
	vx_assert("C08.hdr.reparse-ext-ok", err3 == nil)
	same := hdr2.Type == hdr.Type && hdr2.Version == hdr.Version && hdr2.Length == hdr.Length &&
		hdr2.DestConnectionID == hdr.DestConnectionID && hdr2.SrcConnectionID == hdr.SrcConnectionID &&
		string(hdr2.Token) == string(hdr.Token) && ext2.PacketNumber == ext.PacketNumber && ext2.PacketNumberLen == ext.PacketNumberLen
	vx_assert("C08.hdr.roundtrip-equal", same)
}

func Harness_C08_short_header() {
	b := vx_bytes("b", 28)
	cl := vx_range("connIDLen", 0, 20)
	l, pn, pnLen, kp, err := ParseShortHeader(b, cl)
	if err != nil && err != ErrInvalidReservedBits {
		vx_reach("C08.short.rejected")
		return
	}
	vx_reach("C08.short.parsed")
	vx_assert("C08.short.length", l == 1+cl+int(pnLen) && l <= len(b))
	vx_assert("C08.short.pn", pnLen >= 1 && pnLen <= 4 && pn >= 0 && pn < 1<<(8*uint(pnLen)))
	// the destination connection ID is found by the router without decrypting anything
	cid, err2 := ParseConnectionID(b, cl)
	vx_assert("C08.short.connid", err2 == nil && cid.Len() == cl)
	out, err3 := AppendShortHeader(nil, cid, pn, pnLen, kp)
	vx_assert("C08.short.append", err3 == nil && protocol.ByteCount(len(out)) == ShortHeaderLen(cid, pnLen))
	l2, pn2, pnLen2, kp2, err4 := ParseShortHeader(out, cl)
	vx_assert("C08.short.roundtrip", err4 == nil && l2 == len(out) && pn2 == pn && pnLen2 == pnLen && kp2 == kp)
}

// the version-independent helpers the transport calls on every datagram before anything is authenticated
func Harness_C08_header_misc() {
	b := vx_bytes("b", 24)
	cl := vx_range("shortHeaderConnIDLen", 0, 20)
	if cid, err := ParseConnectionID(b, cl); err == nil {
		vx_reach("C08.misc.connid")
		vx_assert("C08.misc.connid-len", cid.Len() <= 20)
	}
	_ = Is0RTTPacket(b)
	_ = IsVersionNegotiationPacket(b)
	if len(b) > 0 {
		_ = IsPotentialQUICPacket(b[0])
	}
	if _, err := ParseVersion(b); err == nil {
		vx_assert("C08.misc.version-needs-5-bytes", len(b) >= 5)
	}
	if n, d, s, err := ParseArbitraryLenConnectionIDs(b); err == nil {
		vx_assert("C08.misc.arbitrary-len-connids", n <= len(b) && n == 7+len(d)+len(s))
	}
	if len(b) > 0 && IsLongHeaderPacket(b[0]) {
		if d, s, vs, err := ParseVersionNegotiationPacket(b); err == nil {
			vx_reach("C08.misc.vn-parsed")
			vx_assert("C08.misc.vn-consistent", 7+len(d)+len(s)+4*len(vs) == len(b) && len(vs) > 0)
		}
	}
}
