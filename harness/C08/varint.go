package quicvarint

//vx:pkg github.com/refraction-networking/uquic/quicvarint
//vx:entry Harness_C08_varint_parse Harness_C08_varint_roundtrip
//vx:reach Harness_C08_varint_parse C08.varint.parsed C08.varint.rejected
//vx:reach Harness_C08_varint_roundtrip C08.varint.rt

import "bytes"

// any byte string of length <= 9: Parse never panics, consumes exactly what it reports,
// reads nothing beyond it, and re-encoding with the same width parses back to the same value.
func Harness_C08_varint_parse() {
	b := vx_bytes("b", 9)
	v, n, err := Parse(b)
	if err != nil {
		vx_reach("C08.varint.rejected")
		vx_assert("C08.varint.err-consumes-nothing", n == 0)
		// an error is only allowed when the buffer is shorter than the width announced by its first byte
		if len(b) > 0 {
			vx_assert("C08.varint.err-only-if-short", len(b) < 1<<(b[0]>>6))
		}
		return
	}
	vx_reach("C08.varint.parsed")
	vx_observe("value", v)
	vx_observe("n", uint64(n))
	vx_assert("C08.varint.consumed-in-bounds", n >= 1 && n <= len(b))
	vx_assert("C08.varint.width", n == 1<<(b[0]>>6))
	vx_assert("C08.varint.range", v <= Max)
	vx_assert("C08.varint.len-le-consumed", Len(v) <= n)
	// Read agrees with Parse
	rv, rerr := Read(bytes.NewReader(b))
	vx_assert("C08.varint.read-agrees", rerr == nil && rv == v)
	// re-encode at the same width: identical bytes
	out := AppendWithLen(nil, v, n)
	vx_assert("C08.varint.reencode-len", len(out) == n)
	j := vx_range("probe", 0, 7)
	if j < n {
		vx_assert("C08.varint.reencode-bytes", out[j] == b[j])
	}
	// minimal encoding round-trips
	m := Append(nil, v)
	vx_assert("C08.varint.append-len", len(m) == Len(v))
	v2, n2, err2 := Parse(m)
	vx_assert("C08.varint.append-roundtrip", err2 == nil && v2 == v && n2 == len(m))
}

// every value in range: Append gives Len(v) bytes that parse back; appended after a prefix.
func Harness_C08_varint_roundtrip() {
	v := vx_u64("v")
	vx_assume(v <= Max)
	pre := vx_bytes("prefix", 3)
	out := Append(pre, v)
	vx_reach("C08.varint.rt")
	vx_assert("C08.varint.rt-len", len(out) == len(pre)+Len(v))
	v2, n2, err := Parse(out[len(pre):])
	vx_assert("C08.varint.rt-value", err == nil && v2 == v && n2 == Len(v))
	vx_observe("len", uint64(Len(v)))
	w := vx_choice("w", 4)
	width := 1 << w
	if Len(v) <= width {
		o2 := AppendWithLen(nil, v, width)
		vx_assert("C08.varint.rt-withlen-len", len(o2) == width)
		v3, n3, err3 := Parse(o2)
		vx_assert("C08.varint.rt-withlen-value", err3 == nil && v3 == v && n3 == width)
	}
}
