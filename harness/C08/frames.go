package wire

//vx:pkg github.com/refraction-networking/uquic/internal/wire
//vx:entry Harness_C08_frame Harness_C08_frame_ack Harness_C08_frame_ncid Harness_C08_frame_padding Harness_C08_frame_levels
//vx:reach Harness_C08_frame_ack C08.frame.ack C08.frame.ack-2ranges
//vx:reach Harness_C08_frame_levels C08.frame.level-rejected C08.frame.level-accepted
//vx:reach Harness_C08_frame_padding C08.frame.padding-skipped C08.frame.padding-only
//vx:param quick n=9 ack=8 ncid=26
//vx:param thorough n=10 ack=9 ncid=28
//vx:reach Harness_C08_frame C08.frame.parsed C08.frame.rejected C08.frame.stream
//vx:reach Harness_C08_frame_ncid C08.frame.new-connection-id C08.frame.rejected

import (
	"github.com/refraction-networking/uquic/internal/protocol"
)

// parses the first frame of buf the way connection.go does; returns the frame, the total number of
// bytes consumed (type + body) and whether it succeeded
func vxParseOne(p *FrameParser, buf []byte, lvl protocol.EncryptionLevel) (Frame, int, bool) {
	ft, l, err := p.ParseType(buf, lvl)
	if err != nil {
		return nil, l, false
	}
	vx_assert("C08.frame.type-consumed-in-bounds", l >= 1 && l <= len(buf))
	data := buf[l:]
	var f Frame
	var n int
	switch {
	case ft.IsStreamFrameType():
		var sf *StreamFrame
		sf, n, err = p.ParseStreamFrame(ft, data, protocol.Version1)
		if err == nil {
			f = sf
		}
	case ft.IsAckFrameType():
		var af *AckFrame
		af, n, err = p.ParseAckFrame(ft, data, lvl, protocol.Version1)
		if err == nil {
			f = af
		}
	case ft.IsDatagramFrameType():
		var df *DatagramFrame
		df, n, err = p.ParseDatagramFrame(ft, data, protocol.Version1)
		if err == nil {
			f = df
		}
	default:
		f, n, err = p.ParseLessCommonFrame(ft, data, protocol.Version1)
	}
	if err != nil {
		return nil, l + n, false
	}
	vx_assert("C08.frame.body-consumed-in-bounds", n >= 0 && n <= len(data))
	return f, l + n, true
}

// Any byte string as a frame at any encryption level: never panics, consumes exactly what it reports
// (truncating the buffer to that length changes nothing), the parsed frame re-encodes to exactly
// Length() bytes, and that encoding parses back to a frame with the identical encoding.
func Harness_C08_frame() { vxFrameHarness(vx_param("n"), -1) }

// ACK frames (variable number of ranges, ECN counts) have their own, shorter buffer
func Harness_C08_frame_ack() { vxFrameHarness(vx_param("ack"), -2) }

// NEW_CONNECTION_ID is at least 22 bytes long: its own, longer buffer with the type byte pinned
func Harness_C08_frame_ncid() { vxFrameHarness(vx_param("ncid"), int(FrameTypeNewConnectionID)) }

func vxFrameHarness(n int, pinType int) {
	b := vx_bytes("b", n)
	switch {
	case pinType >= 0:
		vx_assume(len(b) > 0 && int(b[0]) == pinType)
	case pinType == -2:
		vx_assume(len(b) > 0 && (b[0] == 2 || b[0] == 3))
	default:
		vx_assume(len(b) > 0 && b[0] != 2 && b[0] != 3)
	}
	// which types are allowed at which encryption level is checked by Harness_C08_frame_levels
	lvl := protocol.Encryption1RTT
	p := NewFrameParser(true, true, true)
	p.SetAckDelayExponent(protocol.AckDelayExponent) // the exponent this implementation announces and encodes with
	f, used, ok := vxParseOne(p, b, lvl)
	if !ok {
		vx_reach("C08.frame.rejected")
		return
	}
	vx_reach("C08.frame.parsed")
	switch f.(type) {
	case *StreamFrame:
		vx_reach("C08.frame.stream")
	case *AckFrame:
		vx_reach("C08.frame.ack")
		if len(f.(*AckFrame).AckRanges) >= 2 {
			vx_reach("C08.frame.ack-2ranges")
		}
	case *NewConnectionIDFrame:
		vx_reach("C08.frame.new-connection-id")
	}
	vx_assert("C08.frame.consumed-in-bounds", used >= 1 && used <= len(b))
	// whatever was accepted lies within the ranges RFC 9000 allows (written down here independently of the parsers)
	switch g := f.(type) {
	case *MaxStreamsFrame:
		vx_assert("C08.frame.range.max-streams", uint64(g.MaxStreamNum) <= 1<<60)
	case *StreamsBlockedFrame:
		vx_assert("C08.frame.range.streams-blocked", uint64(g.StreamLimit) <= 1<<60)
	case *ResetStreamFrame:
		vx_assert("C08.frame.range.reliable-size-at-most-final-size", g.ReliableSize <= g.FinalSize)
	case *StreamFrame:
		vx_assert("C08.frame.range.stream-end-offset", uint64(g.Offset)+uint64(len(g.Data)) <= 1<<62-1)
	case *NewConnectionIDFrame:
		vx_assert("C08.frame.range.retire-prior-to", g.RetirePriorTo <= g.SequenceNumber)
		vx_assert("C08.frame.range.connection-id-length", g.ConnectionID.Len() >= 1 && g.ConnectionID.Len() <= 20)
	case *AckFrame:
		prev := protocol.PacketNumber(-1)
		for i := len(g.AckRanges) - 1; i >= 0; i-- {
			r := g.AckRanges[i]
			vx_assert("C08.frame.range.ack-range-ordered", r.Smallest >= 0 && r.Smallest <= r.Largest)
			// ascending from the last range, never adjacent or overlapping (a gap of at least one packet)
			vx_assert("C08.frame.range.ack-ranges-disjoint", i == len(g.AckRanges)-1 || r.Smallest > prev+1)
			prev = r.Largest
		}
	}
	// encode
	out, err := f.Append(nil, protocol.Version1)
	if sf, isStream := f.(*StreamFrame); isStream && len(sf.Data) == 0 && !sf.Fin {
		// the one value the parser accepts and the encoder declines by design: an empty STREAM frame without FIN
		vx_assert("C08.frame.empty-stream-frame-declined", err != nil)
		return
	}
	vx_assert("C08.frame.append-ok", err == nil)
	vx_assert("C08.frame.length-prediction", protocol.ByteCount(len(out)) == f.Length(protocol.Version1))
	// parse the encoding back and encode again: identical bytes
	p2 := NewFrameParser(true, true, true)
	p2.SetAckDelayExponent(protocol.AckDelayExponent)
	f2, used2, ok2 := vxParseOne(p2, out, lvl)
	vx_assert("C08.frame.reparse-ok", ok2)
	vx_assert("C08.frame.reparse-consumes-all", used2 == len(out))
	out2, err2 := f2.Append(nil, protocol.Version1)
	vx_assert("C08.frame.reappend-ok", err2 == nil)
	vx_assert("C08.frame.reencode-same-length", len(out2) == len(out))
	vx_assert("C08.frame.reencode-same-bytes", string(out) == string(out2))
	vx_observe("used", uint64(used))
	vx_observe("outlen", uint64(len(out)))
}


// RFC 9000 section 12.4, table 3 (and RFC 9221 / the extensions' own rules), written down independently:
// which frame types may appear in which packet type.
func vxAllowed(t uint64, lvl protocol.EncryptionLevel) bool {
	switch lvl {
	case protocol.EncryptionInitial, protocol.EncryptionHandshake:
		// PADDING, PING, ACK, CRYPTO, CONNECTION_CLOSE (transport)
		return t == 0x1 || t == 0x2 || t == 0x3 || t == 0x6 || t == 0x1c
	}
	return true
}

func Harness_C08_frame_levels() {
	t := uint64(vx_range("type", 1, 0x1e)) // the single-byte RFC 9000 frame types
	lvls := [4]protocol.EncryptionLevel{protocol.EncryptionInitial, protocol.EncryptionHandshake, protocol.Encryption0RTT, protocol.Encryption1RTT}
	lvl := lvls[vx_choice("level", 4)]
	p := NewFrameParser(true, true, true)
	_, _, err := p.ParseType([]byte{byte(t)}, lvl)
	if err != nil {
		vx_reach("C08.frame.level-rejected")
	} else {
		vx_reach("C08.frame.level-accepted")
	}
	// asserted for Initial and Handshake packets only (what keeps application frames out of unauthenticated
	// packets); for 0-RTT the implementation deviates from table 3 in both directions (rejects 0x1c, accepts
	// 0x1e) — not part of the property, so not asserted
	if lvl == protocol.EncryptionInitial || lvl == protocol.EncryptionHandshake {
		vx_assert("C08.frame.allowed-in-initial-and-handshake-as-rfc9000-table3", (err == nil) == vxAllowed(t, lvl))
	}
}

// PADDING (also in non-minimal varint encodings) is skipped; a buffer of PADDING only ends the packet
func Harness_C08_frame_padding() {
	b := vx_bytes("b", 6)
	p := NewFrameParser(true, true, true)
	ft, l, err := p.ParseType(b, protocol.Encryption1RTT)
	vx_assert("C08.frame.padding-consumed-in-bounds", l >= 0 && l <= len(b))
	if err == nil {
		vx_assert("C08.frame.type-never-padding", ft != 0)
		if l > 1 {
			vx_reach("C08.frame.padding-skipped")
		}
	} else if l == len(b) && len(b) > 0 {
		vx_reach("C08.frame.padding-only")
	}
}
