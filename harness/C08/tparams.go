package wire

//vx:pkg github.com/refraction-networking/uquic/internal/wire
//vx:entry Harness_C08_tp_struct Harness_C08_tp_bytes Harness_C08_tp_roundtrip
//vx:stub crypto/rand.Read = vxTPRand
//vx:param all maxdepth=4000
//vx:param quick slots=2 full=0 tpbytes=6
//vx:param thorough slots=2 full=1 tpbytes=7
//vx:reach Harness_C08_tp_struct C08.tp.accepted C08.tp.rejected C08.tp.duplicate C08.tp.forbidden-for-client C08.tp.out-of-range C08.tp.missing-mandatory
//vx:reach Harness_C08_tp_bytes C08.tpb.accepted C08.tpb.rejected
//vx:reach Harness_C08_tp_roundtrip C08.tpr.client C08.tpr.server

import (
	"errors"
	"time"

	"github.com/refraction-networking/uquic/internal/protocol"
	"github.com/refraction-networking/uquic/internal/qerr"
	"github.com/refraction-networking/uquic/quicvarint"
)

// engine-side stand-in for the GREASE draw in Marshal: identifier byte free, length from {0, 7, 15}, contents free
func vxTPRand(b []byte) (int, error) {
	for i := range b {
		b[i] = vx_u8("grease")
	}
	if len(b) > 1 {
		b[1] = byte(vx_concrete_u64(uint64([3]int{0, 7, 15}[vx_choice("greaseLen", 3)])))
	}
	return len(b), nil
}

var vxTPIDs = [...]uint64{0x0, 0x1, 0x2, 0x3, 0x4, 0x8, 0xa, 0xb, 0xc, 0xe, 0xf, 0x10, 0x20, 0x17f7586d2cb571, 0xff04de1b, 0x3f, 0x9}

type vxTPSlot struct {
	id    uint64
	v     uint64 // numeric value / length of an opaque value
	lenOK bool   // numeric: the length field equals the varint's length
}

func vxTPNumeric(id uint64) bool {
	switch id {
	case 0x1, 0x3, 0x4, 0x5, 0x6, 0x7, 0x8, 0x9, 0xa, 0xb, 0xe, 0x20, 0xff04de1b:
		return true
	}
	return false
}

// Transport parameters built from a structured description: identifiers from the dictionary of all known
// ones (plus an unknown one), numeric values free 62-bit, opaque lengths from lattices around the limits,
// mandatory connection IDs present or absent, sent by a client or a server. Unmarshal accepts exactly
// what the reference predicate (RFC 9000 sections 7.4 and 18.2, RFC 9221, the two drafts) allows, reports
// TRANSPORT_PARAMETER_ERROR otherwise, and hands on every accepted value unchanged.
func Harness_C08_tp_struct() {
	k := vx_param("slots")
	slots := make([]vxTPSlot, 0, k+2)
	var b []byte
	for i := 0; i < k; i++ {
		var id uint64
		if i == 0 || vx_param("full") == 1 {
			id = vxTPIDs[int(vx_concrete_u64(uint64(vx_choice("id", len(vxTPIDs)))))]
		} else {
			// later slots (quick tier): a duplicate of the first, the two parameters that constrain each other, an unknown one
			id = [4]uint64{slots[0].id, 0xb, 0xff04de1b, 0x3f}[int(vx_concrete_u64(uint64(vx_choice("laterId", 4))))]
		}
		s := vxTPSlot{id: id, lenOK: true}
		b = quicvarint.Append(b, id)
		switch {
		case vxTPNumeric(id):
			var v uint64
			switch id {
			// the three durations are multiplied by 10^3 / 10^6 in the code: values from lattices around their
			// boundaries (products of a free 62-bit value by a constant do not get through the solvers)
			case 0x1:
				v = vx_concrete_u64([5]uint64{30000, 0, 4999, 5000, 1 << 40}[vx_choice("idleMs", 5)])
			case 0xb:
				v = vx_concrete_u64([6]uint64{26, 0, 25, 16383, 16384, 1<<62 - 1}[vx_choice("maxAckDelayMs", 6)])
			case 0xff04de1b:
				v = vx_concrete_u64([6]uint64{1000, 0, 25000, 25001, 26000, 1 << 40}[vx_choice("minAckDelayUs", 6)])
			default:
				v = vx_u64("value")
				vx_assume(v < 1<<62)
			}
			s.v = v
			if i == 0 && vx_bool("wrongLength") {
				s.lenOK = false
				b = quicvarint.Append(b, uint64(quicvarint.Len(v))+1)
				b = quicvarint.Append(b, v)
				b = append(b, 0)
			} else {
				b = quicvarint.Append(b, uint64(quicvarint.Len(v)))
				b = quicvarint.Append(b, v)
			}
		case id == 0x0 || id == 0xf || id == 0x10: // connection IDs
			n := int(vx_concrete_u64(uint64([4]int{8, 0, 20, 21}[vx_choice("cidLen", 4)])))
			s.v = uint64(n)
			b = quicvarint.Append(b, uint64(n))
			b = append(b, vx_bytesN("cid", n)...)
		case id == 0x2: // stateless reset token
			n := int(vx_concrete_u64(uint64([3]int{16, 15, 17}[vx_choice("tokenLen", 3)])))
			s.v = uint64(n)
			b = quicvarint.Append(b, uint64(n))
			b = append(b, vx_bytesN("token", n)...)
		case id == 0xc || id == 0x17f7586d2cb571: // flags
			n := int(vx_concrete_u64(uint64(vx_choice("flagLen", 2))))
			s.v = uint64(n)
			b = quicvarint.Append(b, uint64(n))
			b = append(b, vx_bytesN("flag", n)...)
		default: // unknown: ignored whatever it carries
			n := int(vx_concrete_u64(uint64([2]int{0, 3}[vx_choice("unknownLen", 2)])))
			b = quicvarint.Append(b, uint64(n))
			b = append(b, vx_bytesN("unknown", n)...)
		}
		slots = append(slots, s)
	}
	switch vx_choice("mandatory", 3) {
	case 0: // both
		b = append(b, 0x0, 4, 1, 2, 3, 4)
		slots = append(slots, vxTPSlot{id: 0x0, v: 4, lenOK: true})
		fallthrough
	case 1: // initial_source_connection_id only
		b = append(b, 0xf, 4, 5, 6, 7, 8)
		slots = append(slots, vxTPSlot{id: 0xf, v: 4, lenOK: true})
	}
	sentBy := protocol.PerspectiveServer
	if vx_bool("sentByClient") {
		sentBy = protocol.PerspectiveClient
	}

	// reference predicate
	dup, forbidden, rangeOK, haveISCID, haveODCID := false, false, true, false, false
	maxAckDelayMs, haveMaxAck := uint64(25), false
	minAckDelayUs, haveMinAck := uint64(0), false
	for i, s := range slots {
		for j := 0; j < i; j++ {
			dup = dup || slots[j].id == s.id
		}
		switch s.id {
		case 0x0, 0x2, 0x10:
			forbidden = forbidden || sentBy == protocol.PerspectiveClient
		}
		switch s.id {
		case 0x0:
			haveODCID = true
			rangeOK = vx_and(rangeOK, s.v <= 20)
		case 0xf:
			haveISCID = true
			rangeOK = vx_and(rangeOK, s.v <= 20)
		case 0x10:
			rangeOK = vx_and(rangeOK, s.v <= 20)
		case 0x2:
			rangeOK = vx_and(rangeOK, s.v == 16)
		case 0xc, 0x17f7586d2cb571:
			rangeOK = vx_and(rangeOK, s.v == 0)
		case 0x3:
			rangeOK = vx_and(rangeOK, s.v >= 1200)
		case 0x8, 0x9:
			rangeOK = vx_and(rangeOK, s.v <= 1<<60)
		case 0xa:
			rangeOK = vx_and(rangeOK, s.v <= 20)
		case 0xb:
			rangeOK = vx_and(rangeOK, s.v < 1<<14)
			maxAckDelayMs, haveMaxAck = s.v, true
		case 0xe:
			rangeOK = vx_and(rangeOK, s.v >= 2)
		case 0xff04de1b:
			minAckDelayUs, haveMinAck = s.v, true
		}
		if !s.lenOK {
			rangeOK = false
		}
	}
	_ = haveMaxAck
	if haveMinAck {
		rangeOK = vx_and(rangeOK, minAckDelayUs <= maxAckDelayMs*1000)
	}
	missing := !haveISCID || (sentBy == protocol.PerspectiveServer && !haveODCID)
	valid := vx_and(rangeOK, !dup && !forbidden && !missing)

	var p TransportParameters
	err := p.Unmarshal(b, sentBy)
	if err != nil {
		vx_reach("C08.tp.rejected")
		var te *qerr.TransportError
		vx_assert("C08.tp.error-is-transport-parameter-error", errors.As(err, &te) && te.ErrorCode == qerr.TransportParameterError)
		vx_assert("C08.tp.valid-parameters-accepted", !valid)
		if dup {
			vx_reach("C08.tp.duplicate")
		}
		if forbidden {
			vx_reach("C08.tp.forbidden-for-client")
		}
		if missing {
			vx_reach("C08.tp.missing-mandatory")
		}
		if !rangeOK {
			vx_reach("C08.tp.out-of-range")
		}
		return
	}
	vx_reach("C08.tp.accepted")
	vx_assert("C08.tp.duplicates-rejected", !dup)
	vx_assert("C08.tp.perspective-forbidden-rejected", !forbidden)
	vx_assert("C08.tp.mandatory-present", !missing)
	vx_assert("C08.tp.out-of-range-rejected", rangeOK)
	for _, s := range slots {
		switch s.id {
		case 0x1:
			want := time.Duration(s.v) * time.Millisecond
			if want < protocol.MinRemoteIdleTimeout {
				want = protocol.MinRemoteIdleTimeout
			}
			vx_assert("C08.tp.idle-timeout", p.MaxIdleTimeout == want)
		case 0x3:
			vx_assert("C08.tp.max-udp-payload-size", uint64(p.MaxUDPPayloadSize) == s.v)
		case 0x4:
			vx_assert("C08.tp.initial-max-data", uint64(p.InitialMaxData) == s.v)
		case 0x8:
			vx_assert("C08.tp.max-streams-bidi", uint64(p.MaxBidiStreamNum) == s.v)
		case 0x9:
			vx_assert("C08.tp.max-streams-uni", uint64(p.MaxUniStreamNum) == s.v)
		case 0xa:
			vx_assert("C08.tp.ack-delay-exponent", uint64(p.AckDelayExponent) == s.v)
		case 0xb:
			vx_assert("C08.tp.max-ack-delay", p.MaxAckDelay == time.Duration(s.v)*time.Millisecond)
		case 0xc:
			vx_assert("C08.tp.disable-active-migration", p.DisableActiveMigration)
		case 0xe:
			vx_assert("C08.tp.active-connection-id-limit", p.ActiveConnectionIDLimit == s.v)
		case 0x20:
			vx_assert("C08.tp.max-datagram-frame-size", uint64(p.MaxDatagramFrameSize) == s.v)
		case 0x17f7586d2cb571:
			vx_assert("C08.tp.reset-stream-at", p.EnableResetStreamAt)
		case 0xff04de1b:
			vx_assert("C08.tp.min-ack-delay", p.MinAckDelay != nil && *p.MinAckDelay == time.Duration(s.v)*time.Microsecond)
		case 0x2:
			vx_assert("C08.tp.stateless-reset-token", p.StatelessResetToken != nil)
		case 0x10:
			vx_assert("C08.tp.retry-scid", p.RetrySourceConnectionID != nil && uint64(p.RetrySourceConnectionID.Len()) == s.v)
		}
	}
	// defaults for what was not sent
	has := func(id uint64) bool {
		for _, s := range slots {
			if s.id == id {
				return true
			}
		}
		return false
	}
	vx_assert("C08.tp.default-ack-delay-exponent", has(0xa) || p.AckDelayExponent == 3)
	vx_assert("C08.tp.default-max-ack-delay", has(0xb) || p.MaxAckDelay == 25*time.Millisecond)
	vx_assert("C08.tp.default-active-connection-id-limit", has(0xe) || p.ActiveConnectionIDLimit == 2)
	vx_assert("C08.tp.default-no-datagrams", has(0x20) || p.MaxDatagramFrameSize == protocol.InvalidByteCount)
}

// Any byte string as transport parameters, from a client or a server, or from a session ticket: never
// panics, never reads out of bounds; an error from Unmarshal is a TRANSPORT_PARAMETER_ERROR.
func Harness_C08_tp_bytes() {
	n := vx_param("tpbytes")
	l := int(vx_concrete_u64(uint64(vx_range("len", 0, n))))
	b := vx_bytesN("tp", l)
	var p TransportParameters
	var err error
	switch vx_choice("how", 3) {
	case 0:
		err = p.Unmarshal(b, protocol.PerspectiveClient)
	case 1:
		err = p.Unmarshal(b, protocol.PerspectiveServer)
	case 2:
		err = p.UnmarshalFromSessionTicket(b)
		if err == nil {
			vx_reach("C08.tpb.accepted")
		} else {
			vx_reach("C08.tpb.rejected")
		}
		return
	}
	if err != nil {
		vx_reach("C08.tpb.rejected")
		var te *qerr.TransportError
		vx_assert("C08.tpb.error-is-transport-parameter-error", errors.As(err, &te) && te.ErrorCode == qerr.TransportParameterError)
		return
	}
	vx_reach("C08.tpb.accepted")
	vx_assert("C08.tpb.accepted-values-in-range", p.AckDelayExponent <= 20 && p.MaxAckDelay < (1<<14)*time.Millisecond && p.ActiveConnectionIDLimit >= 2 &&
		p.MaxBidiStreamNum <= 1<<60 && p.MaxUniStreamNum <= 1<<60 && p.MaxUDPPayloadSize >= 1200 &&
		p.InitialSourceConnectionID.Len() <= 20 && p.OriginalDestinationConnectionID.Len() <= 20)
}

// What Marshal produces for in-range parameters (GREASE parameter included) is accepted by Unmarshal for
// the same perspective and yields the same values; the session-ticket form round-trips too.
func Harness_C08_tp_roundtrip() {
	pers := protocol.PerspectiveServer
	if vx_bool("client") {
		pers = protocol.PerspectiveClient
		vx_reach("C08.tpr.client")
	} else {
		vx_reach("C08.tpr.server")
	}
	// one numeric field free at a time (each has four encodings lengths; all free at once is 4^12 layouts)
	which := int(vx_concrete_u64(uint64(vx_choice("freeField", 12))))
	val := func(i int, lo, hi uint64, dflt uint64) uint64 {
		if i != which {
			return dflt
		}
		if i == 6 || i == 8 { // durations: lattice values (see Harness_C08_tp_struct)
			return vx_concrete_u64([4]uint64{lo, hi, lo + 63, lo + 64}[vx_choice("durationValue", 4)])
		}
		v := vx_u64("value")
		vx_assume(v >= lo && v <= hi)
		return v
	}
	p := &TransportParameters{
		InitialMaxStreamDataBidiLocal:  protocol.ByteCount(val(0, 0, 1<<62-1, 65536)),
		InitialMaxStreamDataBidiRemote: protocol.ByteCount(val(1, 0, 1<<62-1, 70000)),
		InitialMaxStreamDataUni:        protocol.ByteCount(val(2, 0, 1<<62-1, 30)),
		InitialMaxData:                 protocol.ByteCount(val(3, 0, 1<<62-1, 1<<20)),
		MaxBidiStreamNum:               protocol.StreamNum(val(4, 0, 1<<60, 100)),
		MaxUniStreamNum:                protocol.StreamNum(val(5, 0, 1<<60, 3)),
		MaxIdleTimeout:                 time.Duration(val(6, 5000, 1<<40, 30000)) * time.Millisecond,
		MaxUDPPayloadSize:              protocol.ByteCount(val(7, 1200, 1<<62-1, 1452)),
		MaxAckDelay:                    time.Duration(val(8, 0, 1<<14-1, 26)) * time.Millisecond,
		AckDelayExponent:               uint8(val(9, 0, 20, 3)),
		DisableActiveMigration:         vx_bool("disableMigration"),
		ActiveConnectionIDLimit:        val(10, 2, 1<<62-1, 4),
		InitialSourceConnectionID:      protocol.ParseConnectionID(vx_bytesN("iscid", 8)),
		MaxDatagramFrameSize:           protocol.InvalidByteCount,
		EnableResetStreamAt:            vx_bool("resetStreamAt"),
	}
	if which == 11 {
		p.MaxDatagramFrameSize = protocol.ByteCount(val(11, 0, 1<<62-1, 0))
	}
	if pers == protocol.PerspectiveServer {
		p.OriginalDestinationConnectionID = protocol.ParseConnectionID(vx_bytesN("odcid", 20))
		if vx_bool("token") {
			var tok protocol.StatelessResetToken
			copy(tok[:], vx_bytesN("token", 16))
			p.StatelessResetToken = &tok
		}
		if vx_bool("retry") {
			c := protocol.ParseConnectionID(vx_bytesN("rscid", 4))
			p.RetrySourceConnectionID = &c
		}
	}
	enc := p.Marshal(pers)
	var q TransportParameters
	err := q.Unmarshal(enc, pers)
	vx_assert("C08.tpr.own-encoding-accepted", err == nil)
	vx_assert("C08.tpr.numeric-values", q.InitialMaxStreamDataBidiLocal == p.InitialMaxStreamDataBidiLocal &&
		q.InitialMaxStreamDataBidiRemote == p.InitialMaxStreamDataBidiRemote && q.InitialMaxStreamDataUni == p.InitialMaxStreamDataUni &&
		q.InitialMaxData == p.InitialMaxData && q.MaxBidiStreamNum == p.MaxBidiStreamNum && q.MaxUniStreamNum == p.MaxUniStreamNum &&
		q.MaxIdleTimeout == p.MaxIdleTimeout && q.MaxUDPPayloadSize == p.MaxUDPPayloadSize && q.MaxAckDelay == p.MaxAckDelay &&
		q.AckDelayExponent == p.AckDelayExponent && q.ActiveConnectionIDLimit == p.ActiveConnectionIDLimit && q.MaxDatagramFrameSize == p.MaxDatagramFrameSize)
	vx_assert("C08.tpr.flags", q.DisableActiveMigration == p.DisableActiveMigration && q.EnableResetStreamAt == p.EnableResetStreamAt)
	vx_assert("C08.tpr.connection-ids", q.InitialSourceConnectionID == p.InitialSourceConnectionID && q.OriginalDestinationConnectionID == p.OriginalDestinationConnectionID)
	vx_assert("C08.tpr.token", (q.StatelessResetToken == nil) == (p.StatelessResetToken == nil) && (p.StatelessResetToken == nil || *q.StatelessResetToken == *p.StatelessResetToken))
	vx_assert("C08.tpr.retry-scid", (q.RetrySourceConnectionID == nil) == (p.RetrySourceConnectionID == nil) && (p.RetrySourceConnectionID == nil || *q.RetrySourceConnectionID == *p.RetrySourceConnectionID))
	// session-ticket form
	st := p.MarshalForSessionTicket(nil)
	var r TransportParameters
	vx_assert("C08.tpr.ticket-accepted", r.UnmarshalFromSessionTicket(st) == nil)
	vx_assert("C08.tpr.ticket-values", r.InitialMaxData == p.InitialMaxData && r.InitialMaxStreamDataBidiLocal == p.InitialMaxStreamDataBidiLocal &&
		r.InitialMaxStreamDataBidiRemote == p.InitialMaxStreamDataBidiRemote && r.InitialMaxStreamDataUni == p.InitialMaxStreamDataUni &&
		r.MaxBidiStreamNum == p.MaxBidiStreamNum && r.MaxUniStreamNum == p.MaxUniStreamNum && r.ActiveConnectionIDLimit == p.ActiveConnectionIDLimit &&
		r.MaxDatagramFrameSize == p.MaxDatagramFrameSize && r.EnableResetStreamAt == p.EnableResetStreamAt)
	vx_assert("C08.tpr.valid-for-0rtt-reflexive", p.ValidFor0RTT(p) && p.ValidForUpdate(p))
}
