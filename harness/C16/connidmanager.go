package quic

//vx:pkg github.com/refraction-networking/uquic
//vx:entry Harness_C16_manager
//vx:param quick steps=4
//vx:param thorough steps=4
//vx:reach Harness_C16_manager C16.added C16.retire-prior-to C16.rotated C16.retired-late-frame C16.path-probe C16.limit-error C16.conflict

import (
	"errors"

	"github.com/refraction-networking/uquic/internal/protocol"
	"github.com/refraction-networking/uquic/internal/qerr"
	"github.com/refraction-networking/uquic/internal/wire"
)

const vxMaxCIDs = 10

type vxCIDGhost struct {
	seqs     [vxMaxCIDs]uint64 // every sequence number the peer has issued (0 = the handshake ID)
	variant  [vxMaxCIDs]byte
	rptOf    [vxMaxCIDs]uint64
	n        int
	rpt      uint64 // largest Retire Prior To the peer has sent
	retired  [2 * vxMaxCIDs]uint64
	nretired int
	tokens   map[protocol.StatelessResetToken]int
	misbehaved bool
	highestProbing uint64 // highest sequence number handed out for path probing
	activeSeq uint64
	lateRPT bool          // a frame that arrived behind a probing ID carried a new Retire Prior To
}

func (g *vxCIDGhost) issued(s uint64) bool {
	r := false
	for i := 0; i < g.n; i++ {
		r = vx_or(r, g.seqs[i] == s)
	}
	return r
}

func (g *vxCIDGhost) wasRetired(s uint64) bool {
	r := false
	for i := 0; i < g.nretired; i++ {
		r = vx_or(r, g.retired[i] == s)
	}
	return r
}

func vxCIDFor(seq uint64, variant byte) protocol.ConnectionID {
	return protocol.ParseConnectionID([]byte{0xc1, byte(seq), byte(seq >> 8), variant})
}

func vxTokenFor(seq uint64, variant byte) protocol.StatelessResetToken {
	return protocol.StatelessResetToken{0x70, byte(seq), byte(seq >> 8), variant}
}

// The peer's NEW_CONNECTION_ID frames (any order, duplicates, gaps, Retire Prior To jumps, conflicting
// contents), rotation, path probing. L = protocol.MaxActiveConnectionIDs, which is what a plain client
// advertises as active_connection_id_limit.
func Harness_C16_manager() {
	g := &vxCIDGhost{tokens: map[protocol.StatelessResetToken]int{}}
	g.seqs[0], g.n = 0, 1
	var queued []wire.Frame
	m := newConnIDManager(vxCIDFor(0, 0),
		func(t protocol.StatelessResetToken) { g.tokens[t]++ },
		func(t protocol.StatelessResetToken) { g.tokens[t]-- },
		func(f wire.Frame) { queued = append(queued, f) })
	const limit = protocol.MaxActiveConnectionIDs
	steps := vx_param("steps")
	for step := 0; step < steps; step++ {
		switch vx_choice("op", 5) {
		case 0: // NEW_CONNECTION_ID
			seq := vx_u64("seq")
			rpt := vx_u64("retirePriorTo")
			vx_assume(seq < 1<<16 && rpt <= seq) // the frame parser rejects Retire Prior To > Sequence Number
			variant := byte(0)
			dupOf := g.issued(seq)
			if vx_bool("conflictingContent") {
				variant = 1
				g.misbehaved = true // a peer that contradicts itself has no claim on the checks below about tokens
			}
			// a duplicate is the same frame again: same Retire Prior To; anything else is a peer contradicting itself
			for i := 0; i < g.n; i++ {
				if g.seqs[i] == seq && i > 0 && g.rptOf[i] != rpt {
					g.misbehaved = true
				}
			}
			f := &wire.NewConnectionIDFrame{SequenceNumber: seq, RetirePriorTo: rpt, ConnectionID: vxCIDFor(seq, variant), StatelessResetToken: vxTokenFor(seq, variant)}
			// what a conformant peer may do: after this frame, the IDs it has issued and not asked us to
			// retire (and that we have not already retired) number at most our advertised limit
			newRpt := g.rpt
			if rpt > newRpt {
				newRpt = rpt
			}
			active := 0
			for i := 0; i < g.n; i++ {
				if g.seqs[i] >= newRpt && !g.wasRetired(g.seqs[i]) {
					active++
				}
			}
			if !dupOf && seq >= newRpt && !g.wasRetired(seq) {
				active++
			}
			// frames that connIDManager.add classifies as late (known finding: their Retire Prior To is ignored)
			if (seq < g.highestProbing || seq < g.activeSeq || seq < g.rpt) && rpt > g.rpt {
				g.lateRPT = true
			}
			err := m.Add(f)
			if err != nil {
				var te *qerr.TransportError
				if errors.As(err, &te) && te.ErrorCode == qerr.ConnectionIDLimitError {
					vx_reach("C16.limit-error")
					vx_assert("C16.accepts-every-id-within-advertised-limit", active > limit)
				} else {
					vx_reach("C16.conflict")
					conflict := false
					for i := 0; i < g.n; i++ {
						conflict = vx_or(conflict, vx_and(g.seqs[i] == seq, g.variant[i] != variant))
					}
					vx_assert("C16.other-error-only-for-conflicting-content", conflict)
				}
				vx_stop()
			}
			vx_reach("C16.added")
			if !dupOf && g.n < vxMaxCIDs {
				g.seqs[g.n], g.variant[g.n], g.rptOf[g.n] = seq, variant, rpt
				g.n++
			}
			if rpt > g.rpt {
				g.rpt = rpt
				vx_reach("C16.retire-prior-to")
			}
		case 1:
			m.SetHandshakeComplete()
		case 2: // a packet is about to be sent
			before := m.Get()
			m.SentPacket()
			_ = before
		case 3: // path probing
			id := pathID(vx_range("path", 1, 2))
			if vx_bool("retirePath") {
				m.RetireConnIDForPath(id)
			} else if cid, ok := m.GetConnIDForPath(id); ok {
				vx_reach("C16.path-probe")
				if b := cid.Bytes(); len(b) == 4 {
					if s := uint64(b[1]) | uint64(b[2])<<8; s > g.highestProbing {
						g.highestProbing = s
					}
				}
			}
		case 4:
			vx_stop()
		}
		// account for RETIRE_CONNECTION_ID frames
		for _, f := range queued {
			if r, ok := f.(*wire.RetireConnectionIDFrame); ok {
				if g.issued(r.SequenceNumber) {
					vx_assert("C16.retire-only-issued-ids", true)
				}
				vx_assert("C16.retires-only-what-the-peer-issued", g.issued(r.SequenceNumber))
				if g.wasRetired(r.SequenceNumber) {
					vx_reach("C16.retired-late-frame")
				}
				if g.nretired < 2*vxMaxCIDs {
					g.retired[g.nretired] = r.SequenceNumber
					g.nretired++
				}
			}
		}
		queued = queued[:0]
		// everything below the peer's Retire Prior To has been reported as retired
		// known finding (open): see known_findings.json
		vx_known("C16.retire-prior-to-honoured-and-reported", g.lateRPT)
		for i := 0; i < g.n && !g.misbehaved; i++ {
			vx_assert("C16.retire-prior-to-honoured-and-reported", vx_implies(g.seqs[i] < g.rpt, g.wasRetired(g.seqs[i])))
		}
		// the ID in use is never one that was reported retired
		cur := m.Get()
		for i := 0; i < g.n; i++ {
			s := g.seqs[i]
			if cur == vxCIDFor(s, 0) || cur == vxCIDFor(s, 1) {
				g.activeSeq = s
				vx_assert("C16.never-uses-a-retired-id", vx_or(g.misbehaved, !g.wasRetired(s)))
				if s != 0 && !g.misbehaved {
					vx_reach("C16.rotated")
					vx_assert("C16.reset-token-of-active-id-registered", g.tokens[vxTokenFor(s, 0)]+g.tokens[vxTokenFor(s, 1)] == 1)
				}
			}
		}
		// stateless-reset tokens: never registered twice, never left registered for a retired ID
		for t, c := range g.tokens {
			if g.misbehaved {
				break
			}
			vx_assert("C16.reset-token-registered-at-most-once", c == 0 || c == 1)
			if c == 1 {
				s := uint64(t[1]) | uint64(t[2])<<8
				vx_assert("C16.no-token-for-retired-id", !g.wasRetired(s))
			}
		}
	}
}
