package quic

//vx:pkg github.com/refraction-networking/uquic
//vx:entry Harness_C16_generator
//vx:stub github.com/refraction-networking/uquic.statelessResetter.GetStatelessResetToken = vxGenResetToken
//vx:param quick steps=4
//vx:param thorough steps=4
//vx:reach Harness_C16_generator C16.gen.issued C16.gen.retired C16.gen.retired-zero C16.gen.expired C16.gen.protocol-violation C16.gen.closed

import (
	"errors"
	"time"

	"github.com/refraction-networking/uquic/internal/monotime"
	"github.com/refraction-networking/uquic/internal/protocol"
	"github.com/refraction-networking/uquic/internal/qerr"
	"github.com/refraction-networking/uquic/internal/wire"
)

func vxGenResetToken(r *statelessResetter, connID protocol.ConnectionID) protocol.StatelessResetToken {
	return protocol.StatelessResetToken{0x5e}
}

type vxCounterGen struct{ n byte }

func (g *vxCounterGen) GenerateConnectionID() (protocol.ConnectionID, error) {
	g.n++
	return protocol.ParseConnectionID([]byte{0xcc, g.n, 0, 1}), nil
}
func (g *vxCounterGen) ConnectionIDLen() int { return 4 }

type vxGenRunner struct{}

func (vxGenRunner) Add(protocol.ConnectionID, packetHandler) bool                    { return true }
func (vxGenRunner) Remove(protocol.ConnectionID)                                     {}
func (vxGenRunner) ReplaceWithClosed([]protocol.ConnectionID, []byte, time.Duration) {}
func (vxGenRunner) AddResetToken(protocol.StatelessResetToken, packetHandler)        {}
func (vxGenRunner) RemoveResetToken(protocol.StatelessResetToken)                    {}

const vxMaxGen = 16

// Our own connection IDs: issuance up to the peer's limit, RETIRE_CONNECTION_ID (any sequence number,
// incl. 0, unissued ones, repeated), expiry of retired IDs, close. IDs are routed for exactly the issued
// and not yet expired ones; at close every ID still routed is handed over once, none that has left.
func Harness_C16_generator() {
	var added, removed [vxMaxGen]int // indexed by the generator's counter (0 = the handshake ID)
	idx := func(id protocol.ConnectionID) int {
		b := id.Bytes()
		if len(b) == 4 && b[0] == 0xcc {
			return int(b[1])
		}
		return 0
	}
	initial := protocol.ParseConnectionID([]byte{0xaa, 0, 0, 0})
	added[0] = 1 // registered by the transport when the connection was created
	var frames []wire.Frame
	g := newConnIDGenerator(vxGenRunner{}, initial, nil, newStatelessResetter(nil), connRunnerCallbacks{
		AddConnectionID:    func(id protocol.ConnectionID) { added[idx(id)]++ },
		RemoveConnectionID: func(id protocol.ConnectionID) { removed[idx(id)]++ },
		ReplaceWithClosed: func(ids []protocol.ConnectionID, _ []byte, _ time.Duration) {
			vx_reach("C16.gen.closed")
			for _, id := range ids {
				k := idx(id)
				vx_assert("C16.gen.closed-handler-only-for-ids-still-routed", added[k] == 1 && removed[k] == 0)
				removed[k]++ // the closed-connection stand-in takes over (and removes it after its own expiry)
			}
		},
	}, func(f wire.Frame) { frames = append(frames, f) }, &vxCounterGen{})
	var issuedSeq [vxMaxGen]bool // sequence numbers announced with NEW_CONNECTION_ID
	var retiredSeq [vxMaxGen]bool
	var expiryOf [vxMaxGen]monotime.Time // by generator counter; 0 = not retired
	issuedSeq[0] = true
	limit := uint64(0)
	now := monotime.Time(3600e9)
	steps := vx_param("steps")
	for step := 0; step < steps; step++ {
		now = now.Add(time.Duration(vx_range("dtMs", 0, 100)) * time.Millisecond)
		switch vx_choice("op", 4) {
		case 0: // the peer's active_connection_id_limit becomes known (transport parameters; again after 0-RTT)
			l := uint64(vx_range("peerLimit", 0, 8))
			vx_assert("C16.gen.set-limit-ok", g.SetMaxActiveConnIDs(l) == nil)
			if l > limit {
				limit = l
			}
		case 1: // RETIRE_CONNECTION_ID
			seq := uint64(vx_range("retireSeq", 0, 12))
			err := g.Retire(seq, protocol.ParseConnectionID([]byte{1, 2, 3, 4}), now.Add(time.Duration(vx_range("expiryMs", 0, 50))*time.Millisecond))
			if seq < vxMaxGen && !issuedSeq[seq] {
				var te *qerr.TransportError
				vx_reach("C16.gen.protocol-violation")
				vx_assert("C16.gen.retire-of-unissued-is-protocol-violation", errors.As(err, &te) && te.ErrorCode == qerr.ProtocolViolation)
				vx_stop()
			}
			vx_assert("C16.gen.retire-ok", err == nil)
			if !retiredSeq[seq] {
				retiredSeq[seq] = true
				vx_reach("C16.gen.retired")
				if seq == 0 {
					vx_reach("C16.gen.retired-zero")
				}
			}
		case 2: // the run loop expires retired IDs
			g.RemoveRetiredConnIDs(now)
		case 3:
			vx_stop()
		}
		// account for NEW_CONNECTION_ID frames
		for _, f := range frames {
			if nf, ok := f.(*wire.NewConnectionIDFrame); ok && nf.SequenceNumber < vxMaxGen {
				vx_reach("C16.gen.issued")
				vx_assert("C16.gen.sequence-numbers-issued-once", !issuedSeq[nf.SequenceNumber])
				issuedSeq[nf.SequenceNumber] = true
				vx_assert("C16.gen.issued-id-is-routed", added[idx(nf.ConnectionID)] == 1 && removed[idx(nf.ConnectionID)] == 0)
			}
		}
		frames = frames[:0]
		// never more unretired IDs than the peer allows (and never more than MaxIssuedConnectionIDs)
		unretired := 0
		for s := 0; s < vxMaxGen; s++ {
			if issuedSeq[s] && !retiredSeq[s] {
				unretired++
			}
		}
		vx_assert("C16.gen.unretired-ids-within-peer-limit", uint64(unretired) <= limit || unretired <= 1)
		vx_assert("C16.gen.unretired-ids-within-own-cap", unretired <= protocol.MaxIssuedConnectionIDs)
		for k := 0; k < vxMaxGen; k++ {
			vx_assert("C16.gen.routing-entry-added-and-removed-at-most-once", added[k] <= 1 && removed[k] <= 1 && removed[k] <= added[k])
			if removed[k] == 1 {
				vx_reach("C16.gen.expired")
			}
		}
	}
	_ = expiryOf
	// the connection closes
	g.ReplaceWithClosed([]byte{1}, time.Second)
	for k := 0; k < vxMaxGen; k++ {
		vx_assert("C16.gen.every-routed-id-handed-over-exactly-once", added[k] == removed[k] && removed[k] <= 1)
	}
}
