package quic

//vx:pkg github.com/refraction-networking/uquic
//vx:entry Harness_C16_routing
//vx:stub github.com/refraction-networking/uquic/internal/handshake.NewUCryptoSetupClient = vxRtCryptoSetup
//vx:stub github.com/refraction-networking/uquic.statelessResetter.GetStatelessResetToken = vxGenResetToken
//vx:param all maxdepth=3000
//vx:param quick steps=3
//vx:param thorough steps=4
//vx:reach Harness_C16_routing C16.rt.issued C16.rt.retired C16.rt.expired C16.rt.peer-id C16.rt.rotated C16.rt.closed-local C16.rt.closed-remote C16.rt.all-gone

import (
	"context"
	"net"
	"time"

	"github.com/refraction-networking/uquic/internal/handshake"
	"github.com/refraction-networking/uquic/internal/monotime"
	"github.com/refraction-networking/uquic/internal/protocol"
	"github.com/refraction-networking/uquic/internal/utils"
	"github.com/refraction-networking/uquic/internal/wire"
	"github.com/refraction-networking/uquic/qlogwriter"
	tls "github.com/refraction-networking/utls"
)

func vxRtCryptoSetup(connID protocol.ConnectionID, tp *wire.TransportParameters, tlsConf *tls.Config, enable0RTT bool,
	rttStats *utils.RTTStats, qlogger qlogwriter.Recorder, logger utils.Logger, version protocol.Version, chs *tls.ClientHelloSpec) handshake.CryptoSetup {
	return nil
}

type vxRtSendConn struct{}

func (vxRtSendConn) Write([]byte, uint16, protocol.ECN) error { return nil }
func (vxRtSendConn) WriteTo([]byte, net.Addr) error           { return nil }
func (vxRtSendConn) Close() error                             { return nil }
func (vxRtSendConn) LocalAddr() net.Addr                      { return &net.UDPAddr{IP: net.IPv4(127, 0, 0, 1), Port: 1} }
func (vxRtSendConn) RemoteAddr() net.Addr                     { return &net.UDPAddr{IP: net.IPv4(127, 0, 0, 1), Port: 2} }
func (vxRtSendConn) ChangeRemoteAddr(net.Addr, packetInfo)    {}
func (vxRtSendConn) capabilities() connCapabilities           { return connCapabilities{} }

// Routing as wired by the real constructor: a client connection built by newUClientConnection on top of the
// real packetHandlerMap of a Transport. The peer's limit arrives, IDs are issued, retired (RETIRE_CONNECTION_ID),
// expire; the peer announces IDs of its own with reset tokens, the client rotates to them; the connection
// closes (locally or remotely) and the closing period ends. Packets are routed to the connection for
// precisely its issued and not yet expired IDs; reset tokens are registered exactly for the peer ID in use;
// after the close no ID reaches the connection, and after the closing period nothing is left.
func Harness_C16_routing() {
	t := &Transport{}
	t.handlers = make(map[protocol.ConnectionID]packetHandler)
	t.resetTokens = make(map[protocol.StatelessResetToken]packetHandler)
	t.closeQueue = make(chan closePacket, 4)
	t.logger = utils.DefaultLogger
	dcid := protocol.ParseConnectionID([]byte{1, 2, 3, 4, 5, 6, 7, 8})
	scid := protocol.ParseConnectionID([]byte{0xaa, 0, 0, 0})
	spec := &QUICSpec{ClientHelloSpec: &tls.ClientHelloSpec{Extensions: []tls.TLSExtension{&tls.QUICTransportParametersExtension{TransportParameters: tls.TransportParameters{
		tls.InitialMaxData(1 << 20), tls.InitialMaxStreamsBidi(100), tls.InitialMaxStreamsUni(100), tls.ActiveConnectionIDLimit(4), tls.MaxIdleTimeout(30000),
	}}}}}
	wc := newUClientConnection(context.Background(), vxRtSendConn{}, (*packetHandlerMap)(t), dcid, scid, &vxCounterGen{},
		newStatelessResetter(nil), populateConfig(&Config{}), &tls.Config{ServerName: "example.com"}, 0, false, false, nil, utils.DefaultLogger, protocol.Version1, spec)
	c := wc.Conn
	t.handlers[scid] = wc // as UTransport.doDial does
	isConn := func(h packetHandler) bool {
		if w, ok := h.(*wrappedConn); ok {
			return w == wc
		}
		k, ok := h.(*Conn)
		return ok && k == c
	}

	limit := vx_concrete_u64(uint64([2]int{4, 2}[vx_choice("peerActiveConnectionIDLimit", 2)]))
	c.peerParams = &wire.TransportParameters{
		InitialMaxData: 1 << 20, InitialMaxStreamDataBidiLocal: 1 << 20, InitialMaxStreamDataBidiRemote: 1 << 20, InitialMaxStreamDataUni: 1 << 20,
		MaxBidiStreamNum: 100, MaxUniStreamNum: 100, MaxIdleTimeout: 30 * time.Second, ActiveConnectionIDLimit: limit, MaxAckDelay: 25 * time.Millisecond,
		MaxUDPPayloadSize: 1452, AckDelayExponent: 3,
	}
	c.applyTransportParameters()
	now := monotime.Time(3600e9)
	c.connIDManager.SetHandshakeComplete()

	// ghost: our IDs by sequence number
	const maxIDs = 12
	var ids [maxIDs]protocol.ConnectionID
	var state [maxIDs]int // 0 unissued, 1 issued, 2 retired (expiry pending), 3 expired
	var expiry [maxIDs]monotime.Time
	ids[0], state[0] = scid, 1
	collect := func() {
		fs, _, _ := c.framer.Append(nil, nil, 1200, now, protocol.Version1)
		for _, f := range fs {
			if nf, ok := f.Frame.(*wire.NewConnectionIDFrame); ok && nf.SequenceNumber < maxIDs {
				vx_reach("C16.rt.issued")
				vx_assert("C16.rt.sequence-number-fresh", state[nf.SequenceNumber] == 0)
				ids[nf.SequenceNumber], state[nf.SequenceNumber] = nf.ConnectionID, 1
			}
		}
	}
	check := func() {
		n := 0
		for s := 0; s < maxIDs; s++ {
			switch state[s] {
			case 1, 2:
				h, ok := t.handlers[ids[s]]
				vx_assert("C16.rt.issued-unexpired-id-reaches-the-connection", ok && isConn(h))
				n++
			case 3:
				_, ok := t.handlers[ids[s]]
				vx_assert("C16.rt.expired-id-is-not-routed", !ok)
			}
		}
		vx_assert("C16.rt.nothing-else-is-routed", len(t.handlers) == n)
	}
	collect()
	check()
	peerSeq := uint64(0)
	steps := vx_param("steps")
	for step := 0; step < steps; step++ {
		now = now.Add(time.Duration(vx_concrete_u64(uint64([2]int{1, 80}[vx_choice("dtMs", 2)]))) * time.Millisecond)
		switch vx_choice("op", 4) {
		case 0: // RETIRE_CONNECTION_ID for one of our IDs
			s := int(vx_concrete_u64(uint64(vx_range("retireSeq", 0, 3))))
			if state[s] == 0 {
				continue // protocol violation: C16.gen
			}
			exp := now.Add(50 * time.Millisecond)
			err := c.connIDGenerator.Retire(uint64(s), dcid, exp)
			vx_assert("C16.rt.retire-ok", err == nil)
			if state[s] == 1 {
				state[s], expiry[s] = 2, exp
				vx_reach("C16.rt.retired")
			}
		case 1: // the run loop's timer
			c.connIDGenerator.RemoveRetiredConnIDs(now)
			for s := 0; s < maxIDs; s++ {
				if state[s] == 2 && !expiry[s].After(now) {
					state[s] = 3
					vx_reach("C16.rt.expired")
				}
			}
		case 2: // the peer announces a connection ID of its own (a conformant peer: never more than the 4 we allow, C16 manager harness covers the limit)
			if peerSeq >= 3 {
				continue
			}
			peerSeq++
			tok := protocol.StatelessResetToken{0x70, byte(peerSeq)}
			err := c.connIDManager.Add(&wire.NewConnectionIDFrame{SequenceNumber: peerSeq, ConnectionID: protocol.ParseConnectionID([]byte{0xbb, byte(peerSeq), 0, 0}), StatelessResetToken: tok})
			vx_assert("C16.rt.peer-id-accepted", err == nil)
			vx_reach("C16.rt.peer-id")
		case 3: // a packet is sent: the destination connection ID may rotate
			before := c.connIDManager.activeSequenceNumber
			_ = c.connIDManager.Get()
			if c.connIDManager.activeSequenceNumber != before {
				vx_reach("C16.rt.rotated")
			}
		}
		collect()
		check()
		// stateless-reset tokens: exactly the one of the peer ID in use (none for the handshake ID of this harness)
		if c.connIDManager.activeSequenceNumber == 0 {
			vx_assert("C16.rt.no-token-before-first-rotation", len(t.resetTokens) == 0)
		} else {
			h, ok := t.resetTokens[protocol.StatelessResetToken{0x70, byte(c.connIDManager.activeSequenceNumber)}]
			vx_assert("C16.rt.token-of-the-id-in-use-registered", ok && isConn(h) && len(t.resetTokens) == 1)
		}
	}
	// the connection closes
	local := vx_bool("closedLocally")
	var closePkt []byte
	if local {
		closePkt = []byte{0x40, 1, 2, 3}
		vx_reach("C16.rt.closed-local")
	} else {
		vx_reach("C16.rt.closed-remote")
	}
	c.connIDGenerator.ReplaceWithClosed(closePkt, 5*time.Millisecond)
	c.connIDManager.Close()
	vx_assert("C16.rt.tokens-removed-at-close", len(t.resetTokens) == 0)
	t.mutex.Lock()
	n := 0
	for s := 0; s < maxIDs; s++ {
		if state[s] == 1 || state[s] == 2 {
			h, ok := t.handlers[ids[s]]
			vx_assert("C16.rt.closing-period-absorbs-packets-for-live-ids", ok && !isConn(h))
			n++
		}
	}
	for _, h := range t.handlers {
		vx_assert("C16.rt.nothing-reaches-the-closed-connection", !isConn(h))
	}
	vx_assert("C16.rt.no-foreign-id-after-close", len(t.handlers) == n)
	t.mutex.Unlock()
	// the closing period ends
	vx_clock_advance(int64(10 * time.Millisecond))
	vx_run_timers()
	t.mutex.Lock()
	vx_assert("C16.rt.everything-removed-after-closing-period", len(t.handlers) == 0)
	t.mutex.Unlock()
	vx_reach("C16.rt.all-gone")
}
