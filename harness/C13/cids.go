package quic

//vx:pkg github.com/refraction-networking/uquic
//vx:entry Harness_C13_authenticated_cids
//vx:stub github.com/refraction-networking/uquic/internal/handshake.GetRetryIntegrityTag = vxRetryTag
//vx:reach Harness_C13_authenticated_cids C13.cid.retry C13.cid.no-retry C13.cid.server-changed-scid C13.cid.accepted C13.cid.rejected C13.cid.second-server-packet

import (
	"errors"

	"github.com/refraction-networking/uquic/internal/ackhandler"
	"github.com/refraction-networking/uquic/internal/handshake"
	"github.com/refraction-networking/uquic/internal/protocol"
	"github.com/refraction-networking/uquic/internal/qerr"
	"github.com/refraction-networking/uquic/internal/utils"
	"github.com/refraction-networking/uquic/internal/wire"
)

// Authenticated connection IDs (RFC 9000 7.3) on a client, through the real handleRetryPacket,
// handleUnpackedLongHeaderPacket and handleTransportParameters: an optional genuine Retry, then one or two
// server packets (the second, possibly forged, with another source connection ID), then the server's transport
// parameters with connection IDs drawn from everything that appeared on the wire: they are accepted exactly
// when initial_source_connection_id is the source ID of the FIRST server packet, original_destination_
// connection_id is the destination ID the client first chose, and retry_source_connection_id is present
// exactly when a Retry was acted upon and names its source ID; otherwise TRANSPORT_PARAMETER_ERROR.
func Harness_C13_authenticated_cids() {
	orig := protocol.ParseConnectionID([]byte{1, 2, 3, 4, 5, 6, 7, 8})
	retryCID := protocol.ParseConnectionID([]byte{9, 9, 9, 9})
	serverCID := protocol.ParseConnectionID([]byte{5, 5, 5, 5, 5})
	otherCID := protocol.ParseConnectionID([]byte{6, 6, 6})
	c, _, _, _ := vxConn(protocol.PerspectiveClient, orig)
	c.origDestConnID = orig // as the constructors set it
	c.receivedPacketHandler = *ackhandler.NewReceivedPacketHandler(utils.DefaultLogger)
	c.frameParser = *wire.NewFrameParser(false, false, false)
	var t [16]byte
	vxTagBytes = &t

	retried := vx_bool("retry")
	if retried {
		vx_reach("C13.cid.retry")
		token := []byte{0xaa}
		body := append([]byte{0xff, 0, 0, 0, 1, 8}, orig.Bytes()...)
		body = append(body, token...)
		tag := handshake.GetRetryIntegrityTag(body, orig, protocol.Version1)
		data := append(body, tag[:]...)
		hdr := &wire.Header{Type: protocol.PacketTypeRetry, Version: protocol.Version1, SrcConnectionID: retryCID, DestConnectionID: protocol.ParseConnectionID([]byte{7}), Token: token}
		vx_assert("C13.cid.genuine-retry-accepted", c.handleRetryPacket(hdr, data, 1))
	} else {
		vx_reach("C13.cid.no-retry")
	}
	cids := [4]protocol.ConnectionID{orig, retryCID, serverCID, otherCID}
	pick := func(name string) protocol.ConnectionID {
		return cids[int(vx_concrete_u64(uint64(vx_choice(name, 4))))]
	}
	// the first packet from the server (its source connection ID may be the one we addressed, or a new one)
	first := pick("firstServerSCID")
	pkt := func(scid protocol.ConnectionID, pn protocol.PacketNumber) *unpackedPacket {
		return &unpackedPacket{hdr: &wire.ExtendedHeader{Header: wire.Header{Type: protocol.PacketTypeInitial, Version: protocol.Version1, SrcConnectionID: scid, DestConnectionID: protocol.ParseConnectionID([]byte{7})}, PacketNumber: pn, PacketNumberLen: 2}, encryptionLevel: protocol.EncryptionInitial}
	}
	vx_assert("C13.cid.first-packet-ok", c.handleUnpackedLongHeaderPacket(pkt(first, 0), protocol.ECNNon, 3600e9, 0, 1200) == nil)
	if first != orig && !(retried && first == retryCID) {
		vx_reach("C13.cid.server-changed-scid")
	}
	if vx_bool("secondServerPacket") {
		// a later packet with yet another source connection ID must not change what is authenticated
		vx_reach("C13.cid.second-server-packet")
		_ = c.handleUnpackedLongHeaderPacket(pkt(pick("secondServerSCID"), 1), protocol.ECNNon, 3600e9, 0, 1200)
	}
	params := &wire.TransportParameters{
		InitialSourceConnectionID:       pick("initial_source_connection_id"),
		OriginalDestinationConnectionID: pick("original_destination_connection_id"),
		ActiveConnectionIDLimit:         2,
	}
	haveRSCID := vx_bool("retry_source_connection_id present")
	var rscid protocol.ConnectionID
	if haveRSCID {
		rscid = pick("retry_source_connection_id")
		params.RetrySourceConnectionID = &rscid
	}
	want := params.InitialSourceConnectionID == first && params.OriginalDestinationConnectionID == orig &&
		haveRSCID == retried && (!retried || rscid == retryCID)
	err := c.handleTransportParameters(params)
	if err != nil {
		vx_reach("C13.cid.rejected")
		var te *qerr.TransportError
		vx_assert("C13.cid.error-is-transport-parameter-error", errors.As(err, &te) && te.ErrorCode == qerr.TransportParameterError)
		vx_assert("C13.cid.matching-connection-ids-accepted", !want)
		return
	}
	vx_reach("C13.cid.accepted")
	vx_assert("C13.cid.only-authenticated-connection-ids-accepted", want)
}
