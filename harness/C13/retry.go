package quic

//vx:pkg github.com/refraction-networking/uquic
//vx:entry Harness_C13_retry Harness_C13_version_negotiation
//vx:stub github.com/refraction-networking/uquic/internal/handshake.GetRetryIntegrityTag = vxRetryTag
//vx:reach Harness_C13_retry C13.retry.accepted C13.retry.ignored C13.retry.bad-tag C13.retry.second C13.retry.after-first-packet
//vx:reach Harness_C13_version_negotiation C13.vn.ignored C13.vn.acted C13.vn.malformed C13.vn.lists-offered-version

import (
	"context"
	"errors"

	"github.com/refraction-networking/uquic/internal/ackhandler"
	"github.com/refraction-networking/uquic/internal/handshake"
	"github.com/refraction-networking/uquic/internal/monotime"
	"github.com/refraction-networking/uquic/internal/protocol"
	"github.com/refraction-networking/uquic/internal/qerr"
	"github.com/refraction-networking/uquic/internal/utils"
	"github.com/refraction-networking/uquic/internal/wire"
)

// engine-side stand-in for the AES-GCM Retry integrity tag: an arbitrary (uninterpreted) 16-byte value
var vxTagBytes *[16]byte

func vxRetryTag(retry []byte, odcid protocol.ConnectionID, v protocol.Version) *[16]byte { return vxTagBytes }

type vxSPH struct{ resets, others int }

func (h *vxSPH) SentPacket(monotime.Time, protocol.PacketNumber, protocol.PacketNumber, []ackhandler.StreamFrame, []ackhandler.Frame, protocol.EncryptionLevel, protocol.ECN, protocol.ByteCount, bool, bool) {
	h.others++
}
func (h *vxSPH) ReceivedAck(*wire.AckFrame, protocol.EncryptionLevel, monotime.Time) (bool, error) {
	h.others++
	return false, nil
}
func (h *vxSPH) ReceivedPacket(protocol.EncryptionLevel, monotime.Time) { h.others++ }
func (h *vxSPH) ReceivedBytes(protocol.ByteCount, monotime.Time)        { h.others++ }
func (h *vxSPH) DropPackets(protocol.EncryptionLevel, monotime.Time)    { h.others++ }
func (h *vxSPH) ResetForRetry(monotime.Time)                            { h.resets++ }
func (h *vxSPH) SendMode(monotime.Time) ackhandler.SendMode             { return ackhandler.SendAny }
func (h *vxSPH) TimeUntilSend() monotime.Time                           { return 0 }
func (h *vxSPH) SetMaxDatagramSize(protocol.ByteCount)                  { h.others++ }
func (h *vxSPH) QueueProbePacket(protocol.EncryptionLevel) bool         { h.others++; return false }
func (h *vxSPH) ECNMode(bool) protocol.ECN                              { return protocol.ECNNon }
func (h *vxSPH) PeekPacketNumber(protocol.EncryptionLevel) (protocol.PacketNumber, protocol.PacketNumberLen) {
	return 7, 2
}
func (h *vxSPH) PopPacketNumber(protocol.EncryptionLevel) protocol.PacketNumber { h.others++; return 7 }
func (h *vxSPH) GetLossDetectionTimeout() monotime.Time                         { return 0 }
func (h *vxSPH) OnLossDetectionTimeout(monotime.Time) error                     { h.others++; return nil }
func (h *vxSPH) MigratedPath(monotime.Time, protocol.ByteCount)                 { h.others++ }

type vxCSH struct{ changed int }

func (c *vxCSH) StartHandshake(context.Context) error                      { return nil }
func (c *vxCSH) ChangeConnectionID(protocol.ConnectionID)                  { c.changed++ }
func (c *vxCSH) SetLargest1RTTAcked(protocol.PacketNumber) error           { return nil }
func (c *vxCSH) SetHandshakeConfirmed()                                    {}
func (c *vxCSH) GetSessionTicket() ([]byte, error)                         { return nil, nil }
func (c *vxCSH) NextEvent() handshake.Event                                { return handshake.Event{} }
func (c *vxCSH) DiscardInitialKeys()                                       {}
func (c *vxCSH) HandleMessage([]byte, protocol.EncryptionLevel) error      { return nil }
func (c *vxCSH) Close() error                                              { return nil }
func (c *vxCSH) ConnectionState() handshake.ConnectionState                { return handshake.ConnectionState{} }

type vxPacker struct{ tokens int }

func (p *vxPacker) PackCoalescedPacket(bool, protocol.ByteCount, monotime.Time, protocol.Version) (*coalescedPacket, error) {
	return nil, nil
}
func (p *vxPacker) PackAckOnlyPacket(protocol.ByteCount, monotime.Time, protocol.Version) (shortHeaderPacket, *packetBuffer, error) {
	return shortHeaderPacket{}, nil, nil
}
func (p *vxPacker) AppendPacket(*packetBuffer, protocol.ByteCount, monotime.Time, protocol.Version) (shortHeaderPacket, error) {
	return shortHeaderPacket{}, nil
}
func (p *vxPacker) PackPTOProbePacket(protocol.EncryptionLevel, protocol.ByteCount, bool, monotime.Time, protocol.Version) (*coalescedPacket, error) {
	return nil, nil
}
func (p *vxPacker) PackConnectionClose(*qerr.TransportError, protocol.ByteCount, protocol.Version) (*coalescedPacket, error) {
	return nil, nil
}
func (p *vxPacker) PackApplicationClose(*qerr.ApplicationError, protocol.ByteCount, protocol.Version) (*coalescedPacket, error) {
	return nil, nil
}
func (p *vxPacker) PackPathProbePacket(protocol.ConnectionID, []ackhandler.Frame, protocol.Version) (shortHeaderPacket, *packetBuffer, error) {
	return shortHeaderPacket{}, nil, nil
}
func (p *vxPacker) PackMTUProbePacket(ackhandler.Frame, protocol.ByteCount, protocol.Version) (shortHeaderPacket, *packetBuffer, error) {
	return shortHeaderPacket{}, nil, nil
}
func (p *vxPacker) SetToken([]byte) { p.tokens++ }

func vxConn(pers protocol.Perspective, dcid protocol.ConnectionID) (*Conn, *vxSPH, *vxCSH, *vxPacker) {
	sph, csh, pk := &vxSPH{}, &vxCSH{}, &vxPacker{}
	c := &Conn{
		perspective:         pers,
		connIDManager:       newConnIDManager(dcid, func(protocol.StatelessResetToken) {}, func(protocol.StatelessResetToken) {}, func(wire.Frame) {}),
		sentPacketHandler:   sph,
		cryptoStreamHandler: csh,
		packer:              pk,
		logger:              utils.DefaultLogger,
		sendingScheduled:    make(chan struct{}, 1),
		version:             protocol.Version1,
		config:              populateConfig(&Config{}),
		handshakeDestConnID: dcid,
	}
	return c, sph, csh, pk
}

// A Retry packet (genuine or forged) arriving in any state of the connection: it is acted upon only by a
// client that has not yet processed any packet nor an earlier Retry, when the server chose a new
// connection ID and the integrity tag is the genuine one; otherwise nothing at all changes.
func Harness_C13_retry() {
	pers := protocol.PerspectiveClient
	if vx_bool("server") {
		pers = protocol.PerspectiveServer
	}
	dcid := protocol.ParseConnectionID([]byte{1, 2, 3, 4, 5, 6, 7, 8})
	c, sph, csh, pk := vxConn(pers, dcid)
	c.receivedFirstPacket = vx_bool("receivedFirstPacket")
	c.receivedRetry = vx_bool("receivedRetry")
	var t [16]byte
	copy(t[:], vx_bytesN("uninterpretedTag", 16))
	vxTagBytes = &t
	// the packet: SCID (same as our DCID, or different), a token, and a tag that is genuine or not
	scid := dcid
	sameSCID := vx_bool("sameSCID")
	if !sameSCID {
		scid = protocol.ParseConnectionID([]byte{9, 9, 9, 9})
	}
	token := vx_bytes("token", 6)
	vx_assume(len(token) >= 1)
	body := append([]byte{0xff, 0, 0, 0, 1, 8}, dcid.Bytes()...)
	body = append(body, token...)
	genuine := handshake.GetRetryIntegrityTag(body, dcid, protocol.Version1)
	tag := *genuine
	tampered := vx_bool("tamperedTag")
	if tampered {
		k := vx_range("flipByte", 0, 15)
		tag[k] ^= byte(vx_range("flipMask", 1, 255))
	}
	data := append(body, tag[:]...)
	hdr := &wire.Header{Type: protocol.PacketTypeRetry, Version: protocol.Version1, SrcConnectionID: scid, DestConnectionID: protocol.ParseConnectionID([]byte{7}), Token: token}
	wasFirst, wasRetry := c.receivedFirstPacket, c.receivedRetry
	accepted := c.handleRetryPacket(hdr, data, 1)
	if wasFirst {
		vx_reach("C13.retry.after-first-packet")
	}
	if wasRetry {
		vx_reach("C13.retry.second")
	}
	if accepted {
		vx_reach("C13.retry.accepted")
		vx_assert("C13.retry.only-clients", pers == protocol.PerspectiveClient)
		vx_assert("C13.retry.only-before-any-packet", !wasFirst)
		vx_assert("C13.retry.only-the-first-retry", !wasRetry)
		vx_assert("C13.retry.new-connection-id-required", !sameSCID)
		vx_assert("C13.retry.invalid-tag-always-ignored", !tampered)
		vx_assert("C13.retry.effects", sph.resets == 1 && csh.changed == 1 && pk.tokens == 1 && c.receivedRetry && c.connIDManager.Get() == scid)
	} else {
		vx_reach("C13.retry.ignored")
		if tampered {
			vx_reach("C13.retry.bad-tag")
		}
		// a genuine Retry meeting all conditions must be acted upon
		vx_assert("C13.retry.genuine-retry-accepted", !(pers == protocol.PerspectiveClient && !wasFirst && !wasRetry && !sameSCID && !tampered))
		vx_assert("C13.retry.ignored-changes-nothing", sph.resets == 0 && sph.others == 0 && csh.changed == 0 && pk.tokens == 0 && c.connIDManager.Get() == dcid && c.handshakeDestConnID == dcid && c.retrySrcConnID == nil && c.receivedRetry == wasRetry)
	}
}

// A Version Negotiation packet (any bytes): it has no effect once a packet was processed or a version was
// negotiated, on a server, when malformed, or when it lists the version we offered.
func Harness_C13_version_negotiation() {
	pers := protocol.PerspectiveClient
	if vx_bool("server") {
		pers = protocol.PerspectiveServer
	}
	dcid := protocol.ParseConnectionID([]byte{1, 2, 3, 4})
	c, sph, _, _ := vxConn(pers, dcid)
	c.receivedFirstPacket = vx_bool("receivedFirstPacket")
	c.versionNegotiated = vx_bool("versionNegotiated")
	// 0x80 | anything, version 0, DCID len 1, SCID len 1, then up to 3 versions (free bytes)
	nv := int(vx_concrete_u64(uint64(vx_range("versions", 0, 3))))
	data := []byte{0x80 | vx_u8("firstByteLowBits")&0x7f, 0, 0, 0, 0, 1, 0xaa, 1, 0xbb}
	vers := vx_bytesN("versionBytes", 4*nv)
	data = append(data, vers...)
	if vx_bool("truncate") && len(data) > 6 {
		data = data[:len(data)-int(vx_concrete_u64(uint64(vx_range("cut", 1, 3))))]
	}
	listsOurs := false
	for i := 0; i+4 <= len(vers) && len(data) == 9+len(vers); i += 4 {
		v := uint32(vers[i])<<24 | uint32(vers[i+1])<<16 | uint32(vers[i+2])<<8 | uint32(vers[i+3])
		listsOurs = vx_or(listsOurs, protocol.Version(v) == protocol.Version1)
	}
	err := c.handleVersionNegotiationPacket(receivedPacket{data: data, buffer: getPacketBuffer()})
	var recreate *errCloseForRecreating
	if errors.As(err, &recreate) {
		vx_reach("C13.vn.acted")
		vx_assert("C13.vn.only-clients", pers == protocol.PerspectiveClient)
		vx_assert("C13.vn.not-after-a-packet-was-processed", !c.receivedFirstPacket)
		vx_assert("C13.vn.not-after-version-negotiated", !c.versionNegotiated)
		vx_assert("C13.vn.not-when-listing-the-offered-version", !listsOurs)
		vx_assert("C13.vn.well-formed-only", len(data) == 9+4*nv && nv >= 1)
		vx_assert("C13.vn.switches-to-a-supported-version", recreate.nextVersion == protocol.Version2)
	} else {
		vx_reach("C13.vn.ignored")
		if listsOurs {
			vx_reach("C13.vn.lists-offered-version")
		}
		if len(data) != 9+4*nv || nv == 0 {
			vx_reach("C13.vn.malformed")
		}
		vx_assert("C13.vn.ignored-returns-nil", err == nil)
		vx_assert("C13.vn.ignored-touches-nothing", sph.others == 0)
	}
}
