package quic

//vx:pkg github.com/refraction-networking/uquic
//vx:entry Harness_C10_pack_flight
//vx:param all maxdepth=6000 maxsteps=20000000
//vx:param quick ncuts=6
//vx:param thorough ncuts=12
//vx:reach Harness_C10_pack_flight C10.pf.datagram C10.pf.second-datagram C10.pf.flight-complete C10.pf.plan-rejected C10.pf.retransmission

import (
	"github.com/refraction-networking/uquic/internal/ackhandler"
	"github.com/refraction-networking/uquic/internal/flowcontrol"
	"github.com/refraction-networking/uquic/internal/monotime"
	"github.com/refraction-networking/uquic/internal/protocol"
	"github.com/refraction-networking/uquic/internal/utils"
	"github.com/refraction-networking/uquic/internal/wire"
	"github.com/refraction-networking/uquic/quicvarint"
)

// A pre-planned flight (QUICFlightFrames: the tail of the ClientHello first, then the head, as Chrome does)
// through the real packer: PackCoalescedPacket -> planInitialFlight -> BuildFlight -> validateInitialFlight ->
// packPlannedInitial -> appendInitialPacketPayload, with the real crypto stream, ack handler and
// retransmission queue. ClientHello length, cut position and packet size from lattices, contents symbolic.
// Each datagram stays within the size asked for, carries sequential packet numbers and only PADDING/PING/
// CRYPTO frames whose bytes sit at their true offsets; the flight covers the ClientHello completely; the
// frames registered for loss recovery are exactly the ranges each datagram carried; a plan that cannot fit
// is an error before anything is sent.
func Harness_C10_pack_flight() {
	chLen := vxPick("clientHelloLen", []int{1600, 1300, 2500})
	cut := vxPick("cut", []int{400, 1000, 1200, 380, 391, 1180, 386, 388, 1187, 1190, 1, 1299}[:vx_param("ncuts")])
	maxSize := protocol.ByteCount(vxPick("maxPacketSize", []int{1252, 1350}))
	dcid := protocol.ParseConnectionID(vx_bytesN("dcid", 8))
	ch := vx_bytesN("clienthello", chLen)
	spec := &QUICSpec{}
	spec.InitialPacketSpec.FrameBuilder = &QUICFlightFrames{Datagrams: []QUICFrames{
		{QUICFrameCrypto{Offset: cut, Length: 0}, QUICFramePing{}},
		{QUICFrameCrypto{Offset: 0, Length: cut}},
	}}
	initialStream := newInitialCryptoStream(true)
	initialStream.DisableScrambling()
	_, err := initialStream.Write(ch)
	vx_assert("C10.pf.write", err == nil)
	rtt := utils.NewRTTStats()
	sph := ackhandler.NewUAckHandler(0, protocol.InitialPacketSize, rtt, &utils.ConnectionStats{}, true, false, nil, protocol.PerspectiveClient, nil, utils.DefaultLogger)
	connFC := flowcontrol.NewConnectionFlowController(1<<20, 1<<20, nil, rtt, utils.DefaultLogger)
	rq := newRetransmissionQueue()
	pp := newPacketPacker(protocol.ConnectionID{}, func() protocol.ConnectionID { return dcid }, initialStream, newCryptoStream(), sph,
		rq, vxSealing{}, newFramer(connFC), vxNoAcks{}, nil, protocol.PerspectiveClient)
	p := newUPacketPacker(pp, spec)
	now := monotime.Time(3600e9)
	covered := make([]bool, chLen)
	ndg := 0
	for dg := 0; dg < 3; dg++ {
		pkt, err := p.PackCoalescedPacket(false, maxSize, now, protocol.Version1)
		if err != nil {
			// a plan that does not fit its datagrams is refused as a whole, before the first datagram
			vx_assert("C10.pf.rejected-before-anything-is-sent", dg == 0)
			vx_reach("C10.pf.plan-rejected")
			return
		}
		if pkt == nil {
			break
		}
		ndg++
		vx_reach("C10.pf.datagram")
		if dg == 1 {
			vx_reach("C10.pf.second-datagram")
		}
		data := pkt.buffer.Data
		vx_assert("C10.pf.datagram-within-max-packet-size", protocol.ByteCount(len(data)) <= maxSize)
		vx_assert("C10.pf.one-initial-packet", len(pkt.longHdrPackets) == 1 && pkt.shortHdrPacket == nil)
		hdr, pdata, _, perr := wire.ParsePacket(data)
		vx_assert("C10.pf.parses", perr == nil && hdr.Type == protocol.PacketTypeInitial && hdr.DestConnectionID == dcid)
		ext, eerr := hdr.ParseExtended(pdata)
		vx_assert("C10.pf.extended", eerr == nil)
		vx_assert("C10.pf.packet-numbers-sequential", ext.PacketNumber == protocol.PacketNumber(dg))
		body := pdata[int(ext.ParsedLen()) : len(pdata)-16]
		pos := 0
		nCrypto := 0
		for pos < len(body) {
			t := body[pos]
			if t == 0 || t == 1 {
				pos++
				continue
			}
			vx_assert("C10.pf.only-padding-ping-crypto", t == 6)
			pos++
			off, n1, e1 := quicvarint.Parse(body[pos:])
			pos += n1
			l, n2, e2 := quicvarint.Parse(body[pos:])
			pos += n2
			vx_assert("C10.pf.crypto-header", e1 == nil && e2 == nil && off+l <= uint64(chLen) && l <= uint64(len(body)-pos))
			for j := 0; j < int(l); j += 113 {
				vx_assert("C10.pf.crypto-bytes-at-true-offset", body[pos+j] == ch[int(off)+j])
			}
			vx_assert("C10.pf.crypto-last-byte", l == 0 || body[pos+int(l)-1] == ch[int(off)+int(l)-1])
			for j := int(off); j < int(off+l); j++ {
				covered[j] = true
			}
			// what loss recovery will retransmit for this datagram is exactly what it carried
			frames := pkt.longHdrPackets[0].frames
			vx_assert("C10.pf.registered-for-loss-recovery", nCrypto < len(frames))
			cf, ok := frames[nCrypto].Frame.(*wire.CryptoFrame)
			vx_assert("C10.pf.registered-range-matches-wire", ok && uint64(cf.Offset) == off && uint64(len(cf.Data)) == l && frames[nCrypto].Handler != nil)
			nCrypto++
			pos += int(l)
		}
		sph.SentPacket(now, ext.PacketNumber, protocol.InvalidPacketNumber, nil, pkt.longHdrPackets[0].frames, protocol.EncryptionInitial, protocol.ECNNon, protocol.ByteCount(len(data)), false, false)
		if dg == 0 && vx_bool("firstDatagramLost") {
			// the first datagram is declared lost: its range comes back through the retransmission queue
			for _, f := range pkt.longHdrPackets[0].frames {
				f.Handler.OnLost(f.Frame)
			}
			vx_assert("C10.pf.lost-range-queued", rq.HasData(protocol.EncryptionInitial))
			vx_reach("C10.pf.retransmission")
		}
	}
	vx_assert("C10.pf.at-least-two-datagrams", ndg >= 2)
	all := true
	for _, c := range covered {
		all = all && c
	}
	vx_assert("C10.pf.clienthello-complete", all)
	vx_reach("C10.pf.flight-complete")
}
