package quic

//vx:pkg github.com/refraction-networking/uquic
//vx:entry Harness_C10_pack
//vx:entry-thorough Harness_C10_pack_random
//vx:reach Harness_C10_pack_random C10.pack.datagram
//vx:param all maxdepth=6000 maxsteps=20000000
//vx:param quick lattice=6
//vx:param thorough lattice=6
//vx:reach Harness_C10_pack C10.pack.datagram C10.pack.second-datagram C10.pack.crypto-length-pinned C10.pack.drained

import (
	"github.com/refraction-networking/uquic/internal/ackhandler"
	"github.com/refraction-networking/uquic/internal/flowcontrol"
	"github.com/refraction-networking/uquic/internal/handshake"
	"github.com/refraction-networking/uquic/internal/monotime"
	"github.com/refraction-networking/uquic/internal/protocol"
	"github.com/refraction-networking/uquic/internal/utils"
	"github.com/refraction-networking/uquic/internal/wire"
	"github.com/refraction-networking/uquic/quicvarint"
)

type vxSealing struct{}

func (vxSealing) GetInitialSealer() (handshake.LongHeaderSealer, error)   { return vxSealer{}, nil }
func (vxSealing) GetHandshakeSealer() (handshake.LongHeaderSealer, error) { return nil, handshake.ErrKeysNotYetAvailable }
func (vxSealing) Get0RTTSealer() (handshake.LongHeaderSealer, error)      { return nil, handshake.ErrKeysNotYetAvailable }
func (vxSealing) Get1RTTSealer() (handshake.ShortHeaderSealer, error)     { return nil, handshake.ErrKeysNotYetAvailable }

type vxNoAcks struct{}

func (vxNoAcks) GetAckFrame(protocol.EncryptionLevel, monotime.Time, bool) *wire.AckFrame { return nil }

// The first flight of a spec-driven client, assembled by the real uPacketPacker.PackCoalescedPacket ->
// maybeGetCryptoPacket -> MarshalInitialPacketPayload -> appendInitialPacket (real initial crypto stream,
// retransmission queue, framer, uSentPacketHandler; pass-through sealer with the real 16-byte overhead):
// ClientHello length, CryptoLength pin and maximum packet size from lattices around the boundaries,
// contents symbolic. No datagram exceeds the size the packer was asked for; headers as specified;
// the CRYPTO frames over all datagrams carry the ClientHello exactly; a pinned CryptoLength splits there.
func Harness_C10_pack() { vxPack(false) }

// the same with a QUICRandomFrames builder (first datagram only; sizes only)
func Harness_C10_pack_random() { vxPack(true) }

func vxPack(random bool) {
	w := vx_param("lattice")
	// optionally a QUICRandomFrames builder with a fixed CRYPTO frame count k (Min == Max) and a total frame
	// length L, as the Chrome fingerprints use (there: up to 13 frames, L = 1215)
	kFrames := 0
	if random {
		kFrames = vxPick("randomFramesCRYPTO", []int{1, 5, 3}[:2+w/6])
	}
	chLen, cryptoLength := 1600, 0
	if kFrames == 0 {
		chLen = vxPick("clientHelloLen", []int{300, 1600, 2300, 1150, 1250, 2600}[:w])
		cryptoLength = vxPick("CryptoLength", []int{0, 999, 1250, 1242, 1256, 1100}[:w])
	}
	maxSize := protocol.ByteCount(1252)
	if !random {
		maxSize = protocol.ByteCount(vxPick("maxPacketSize", []int{1280, 1252, 1200, 1350, 1452, 1300}[:w]))
	}
	dcid := protocol.ParseConnectionID(vx_bytesN("dcid", 8))
	ch := vx_bytesN("clienthello", chLen)
	spec := &QUICSpec{}
	if kFrames > 0 {
		spec.InitialPacketSpec.FrameBuilder = &QUICRandomFrames{MinCRYPTO: uint8(kFrames), MaxCRYPTO: uint8(kFrames), MinPADDING: 1, MaxPADDING: 1, Length: uint16(int(maxSize) - 21 - 16)}
	}
	if cryptoLength > 0 {
		spec.InitialPacketSpec.InitialPackets = []InitialPacketPlan{{CryptoLength: cryptoLength}, {}}
	}
	initialStream := newInitialCryptoStream(true)
	initialStream.DisableScrambling()
	_, err := initialStream.Write(ch)
	vx_assert("C10.pack.write", err == nil)
	rtt := utils.NewRTTStats()
	sph := ackhandler.NewUAckHandler(0, protocol.InitialPacketSize, rtt, &utils.ConnectionStats{}, true, false, nil, protocol.PerspectiveClient, nil, utils.DefaultLogger)
	connFC := flowcontrol.NewConnectionFlowController(1<<20, 1<<20, nil, rtt, utils.DefaultLogger)
	pp := newPacketPacker(protocol.ConnectionID{}, func() protocol.ConnectionID { return dcid }, initialStream, newCryptoStream(), sph,
		newRetransmissionQueue(), vxSealing{}, newFramer(connFC), vxNoAcks{}, nil, protocol.PerspectiveClient)
	p := newUPacketPacker(pp, spec)
	var offs, lens [8]uint64
	nfr := 0
	firstHdrLen := 0
	now := monotime.Time(3600e9)
	ndg := 4
	if random {
		ndg = 1
	}
	for dg := 0; dg < ndg; dg++ {
		pkt, err := p.PackCoalescedPacket(false, maxSize, now, protocol.Version1)
		vx_assert("C10.pack.no-error", err == nil)
		if pkt == nil {
			break
		}
		vx_reach("C10.pack.datagram")
		if dg == 1 {
			vx_reach("C10.pack.second-datagram")
		}
		data := pkt.buffer.Data
		// "none exceeds the connection's current maximum packet size"
		// known finding (open): with a QUICRandomFrames builder the CRYPTO budget ignores the re-framing overhead
		vx_known("C10.pack.datagram-within-max-packet-size", kFrames >= 5)
		vx_assert("C10.pack.datagram-within-max-packet-size", protocol.ByteCount(len(data)) <= maxSize)
		vx_assert("C10.pack.one-initial-packet", len(pkt.longHdrPackets) == 1 && pkt.shortHdrPacket == nil)
		hdr, pdata, _, perr := wire.ParsePacket(data)
		vx_assert("C10.pack.parses", perr == nil && hdr.Type == protocol.PacketTypeInitial && hdr.DestConnectionID == dcid && hdr.SrcConnectionID.Len() == 0 && len(hdr.Token) == 0)
		ext, eerr := hdr.ParseExtended(pdata)
		vx_assert("C10.pack.extended", eerr == nil)
		vx_assert("C10.pack.packet-numbers-sequential", ext.PacketNumber == protocol.PacketNumber(dg))
		if dg == 0 {
			firstHdrLen = int(ext.ParsedLen())
		}
		if kFrames > 0 {
			// the builder's own framing is C09's subject (and its piece lengths are symbolic draws): sizes only here
			sph.SentPacket(now, ext.PacketNumber, protocol.InvalidPacketNumber, nil, pkt.longHdrPackets[0].frames, protocol.EncryptionInitial, protocol.ECNNon, protocol.ByteCount(len(data)), false, false)
			continue
		}
		// walk the frames (PADDING / PING / CRYPTO only)
		body := pdata[int(ext.ParsedLen()) : len(pdata)-16]
		pos := 0
		first := true
		for pos < len(body) {
			t := body[pos]
			if t == 0 || t == 1 {
				pos++
				continue
			}
			vx_assert("C10.pack.only-padding-ping-crypto", t == 6)
			pos++
			off, n1, e1 := quicvarint.Parse(body[pos:])
			pos += n1
			l, n2, e2 := quicvarint.Parse(body[pos:])
			pos += n2
			vx_assert("C10.pack.crypto-header", e1 == nil && e2 == nil && off+l <= uint64(chLen) && l <= uint64(len(body)-pos))
			for j := 0; j < int(l); j += 97 { // sampled bytes (every 97th) of every frame, concrete positions
				vx_assert("C10.pack.crypto-bytes-at-true-offset", body[pos+j] == ch[int(off)+j])
			}
			if first && dg == 0 && cryptoLength > 0 && cryptoLength < chLen {
				vx_reach("C10.pack.crypto-length-pinned")
			}
			first = false
			if nfr < len(offs) {
				offs[nfr], lens[nfr] = off, l
				nfr++
			}
			pos += int(l)
		}
		sph.SentPacket(now, ext.PacketNumber, protocol.InvalidPacketNumber, nil, pkt.longHdrPackets[0].frames, protocol.EncryptionInitial, protocol.ECNNon, protocol.ByteCount(len(data)), false, false)
	}
	if !initialStream.HasData() && kFrames == 0 {
		vx_reach("C10.pack.drained")
		// coverage: contiguous from 0 to chLen in order of emission
		next := uint64(0)
		for i := 0; i < nfr; i++ {
			vx_assert("C10.pack.crypto-contiguous", offs[i] == next)
			next += lens[i]
		}
		vx_assert("C10.pack.clienthello-complete", next == uint64(chLen))
		if cryptoLength > 0 && cryptoLength < chLen && nfr >= 2 {
			// the pin is honoured whenever header + CRYPTO frame of that length + AEAD tag fit the packet size asked for
			fits := protocol.ByteCount(firstHdrLen+1+1+2+cryptoLength+16) < maxSize
			vx_assert("C10.pack.split-at-pinned-crypto-length", !fits || lens[0] == uint64(cryptoLength))
		}
	}
}
