package ackhandler

//vx:pkg github.com/refraction-networking/uquic/internal/ackhandler
//vx:entry Harness_C10_pnlen
//vx:reach Harness_C10_pnlen C10.pnlen.list C10.pnlen.single C10.pnlen.default

import (
	"github.com/refraction-networking/uquic/internal/protocol"
	"github.com/refraction-networking/uquic/internal/utils"
	"github.com/refraction-networking/uquic/internal/wire"
)

// per-packet packet-number encoding lengths of the Initial flight: the k-th Initial packet has number
// base+k and is encoded with lens[min(k, len-1)]; other spaces keep the standard rule
func Harness_C10_pnlen() {
	base := protocol.PacketNumber(vx_i64("basePN"))
	vx_assume(base >= 0 && base <= 1<<62-1-8)
	h := NewUAckHandler(base, 1200, utils.NewRTTStats(), &utils.ConnectionStats{}, true, false, nil, protocol.PerspectiveClient, nil, utils.DefaultLogger)
	mode := vx_choice("mode", 3)
	var lens []protocol.PacketNumberLen
	var single protocol.PacketNumberLen
	switch mode {
	case 0:
		vx_reach("C10.pnlen.list")
		n := vx_range("entries", 1, 3)
		for i := 0; i < n; i++ {
			lens = append(lens, protocol.PacketNumberLen(vx_range("pnLen", 1, 4)))
		}
		SetInitialPacketNumberLengths(h, base, lens)
	case 1:
		vx_reach("C10.pnlen.single")
		single = protocol.PacketNumberLen(vx_range("pnLen", 1, 4))
		SetInitialPacketNumberLength(h, single)
	default:
		vx_reach("C10.pnlen.default")
	}
	for k := 0; k < 4; k++ {
		pn, l := h.PeekPacketNumber(protocol.EncryptionInitial)
		vx_assert("C10.pnlen.number-is-base-plus-k", pn == base+protocol.PacketNumber(k))
		switch mode {
		case 0:
			idx := k
			if idx >= len(lens) {
				idx = len(lens) - 1
			}
			vx_assert("C10.pnlen.per-packet-length", l == lens[idx])
		case 1:
			vx_assert("C10.pnlen.single-length", l == single)
		default:
			vx_assert("C10.pnlen.standard-rule", l == protocol.PacketNumberLengthForHeader(pn, protocol.InvalidPacketNumber))
		}
		got := h.PopPacketNumber(protocol.EncryptionInitial)
		vx_assert("C10.pnlen.pop-matches-peek", got == pn)
		h.SentPacket(1, pn, protocol.InvalidPacketNumber, nil, []Frame{{Frame: &wire.PingFrame{}}}, protocol.EncryptionInitial, protocol.ECNNon, 1200, false, false)
	}
	// other packet number spaces are unaffected
	hpn, hl := h.PeekPacketNumber(protocol.EncryptionHandshake)
	vx_assert("C10.pnlen.handshake-space-unaffected", hpn == 0 && hl == protocol.PacketNumberLengthForHeader(0, protocol.InvalidPacketNumber))
}
