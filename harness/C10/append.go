package quic

//vx:pkg github.com/refraction-networking/uquic
//vx:entry Harness_C10_append
//vx:param all maxdepth=3000
//vx:reach Harness_C10_append C10.app.built C10.app.exact-size C10.app.min-padded C10.app.rejected C10.app.token

import (
	"github.com/refraction-networking/uquic/internal/protocol"
	"github.com/refraction-networking/uquic/internal/wire"
)

type vxSealer struct{}

func (vxSealer) Seal(dst, _ []byte, _ protocol.PacketNumber, _ []byte) []byte { return dst }
func (vxSealer) EncryptHeader(_ []byte, _ *byte, _ []byte)                    {}
func (vxSealer) DecryptHeader(_ []byte, _ *byte, _ []byte)                    {}
func (vxSealer) Overhead() int                                                { return 16 }

type vxPNManager struct{ pn protocol.PacketNumber }

func (m vxPNManager) PeekPacketNumber(protocol.EncryptionLevel) (protocol.PacketNumber, protocol.PacketNumberLen) {
	return m.pn, protocol.PacketNumberLen4
}
func (m vxPNManager) PopPacketNumber(protocol.EncryptionLevel) protocol.PacketNumber { return m.pn }

func vxPick(name string, vals []int) int {
	return int(vx_concrete_u64(uint64(vals[vx_choice(name, len(vals))])))
}

// One Initial packet serialised by the real appendInitialPacketPayload (pass-through sealer with the real
// 16-byte overhead, header protection a no-op): connection-ID lengths, token, packet-number length, frame
// bytes, exact packet size and UDP minimum from lattices; packet number and contents symbolic. What comes
// out re-parses (real wire.ParsePacket/ParseExtended) to exactly the specified header, has the size the
// spec demands, stays inside the packet buffer — or it is an error and nothing was written.
func Harness_C10_append() {
	dl := vxPick("dcidLen", []int{0, 8, 20})
	sl := vxPick("scidLen", []int{0, 4, 20})
	tl := vxPick("tokenLen", []int{0, 5, 70})
	pnLen := vxPick("pnLen", []int{1, 2, 4})
	payloadLen := vxPick("framesLen", []int{0, 3, 20, 1100, 1162, 1400})
	packetSize := vxPick("PacketSize", []int{0, 1200, 1250, 1452, 1500})
	minUDP := vxPick("UDPDatagramMinSize", []int{0, 1200, 1357})
	pn := protocol.PacketNumber(vx_i64("pn"))
	vx_assume(pn >= 0 && pn < 1<<62)
	dcid := protocol.ParseConnectionID(vx_bytesN("dcid", dl))
	scid := protocol.ParseConnectionID(vx_bytesN("scid", sl))
	token := vx_bytesN("token", tl)
	if tl > 0 {
		vx_reach("C10.app.token")
	}
	hdr := &wire.ExtendedHeader{
		Header:          wire.Header{Type: protocol.PacketTypeInitial, DestConnectionID: dcid, SrcConnectionID: scid, Version: protocol.Version1, Token: token},
		PacketNumber:    pn,
		PacketNumberLen: protocol.PacketNumberLen(pnLen),
	}
	p := &uPacketPacker{packetPacker: &packetPacker{pnManager: vxPNManager{pn: pn}}, uSpec: &QUICSpec{UDPDatagramMinSize: minUDP}}
	if packetSize > 0 {
		p.uSpec.InitialPacketSpec.InitialPackets = []InitialPacketPlan{{PacketSize: packetSize}}
	}
	frames := vx_bytesN("frames", payloadLen)
	buffer := getPacketBuffer()
	pkt, err := p.appendInitialPacketPayload(buffer, hdr, payload{}, frames, 0, protocol.EncryptionInitial, vxSealer{}, protocol.Version1)
	if err != nil {
		vx_reach("C10.app.rejected")
		vx_assert("C10.app.error-leaves-buffer-untouched", len(buffer.Data) == 0)
		return
	}
	vx_reach("C10.app.built")
	vx_assert("C10.app.inside-packet-buffer", len(buffer.Data) <= protocol.MaxPacketBufferSize && int(pkt.length) <= len(buffer.Data))
	natural := int(hdr.GetLength(protocol.Version1)) + payloadLen + 16
	if packetSize > 0 {
		if packetSize >= natural {
			vx_reach("C10.app.exact-size")
			vx_assert("C10.app.exact-packet-size", int(pkt.length) == packetSize)
		}
		vx_assert("C10.app.no-trailing-bytes-with-exact-size", len(buffer.Data) == int(pkt.length))
	} else {
		want := minUDP
		if want == 0 {
			want = DefaultUDPDatagramMinSize
		}
		if natural < want {
			vx_reach("C10.app.min-padded")
		}
		vx_assert("C10.app.udp-minimum-size", len(buffer.Data) >= want && (len(buffer.Data) == want || len(buffer.Data) == int(pkt.length)))
	}
	// an observer parses it back
	h2, data, rest, perr := wire.ParsePacket(buffer.Data)
	vx_assert("C10.app.parses", perr == nil)
	vx_assert("C10.app.header-as-specified", h2.Type == protocol.PacketTypeInitial && h2.Version == protocol.Version1 &&
		h2.DestConnectionID == dcid && h2.SrcConnectionID == scid && string(h2.Token) == string(token))
	vx_assert("C10.app.packet-is-length-field-long", len(data) == int(pkt.length) && len(rest) == len(buffer.Data)-int(pkt.length))
	vx_assert("C10.app.length-field-covers-pn-frames-tag", int(h2.Length) == len(data)-int(h2.ParsedLen()))
	for _, c := range rest {
		vx_assert("C10.app.trailing-bytes-are-zero", c == 0)
		break
	}
	ext, eerr := h2.ParseExtended(data)
	vx_assert("C10.app.extended-parses", eerr == nil)
	vx_assert("C10.app.packet-number-as-specified", int(ext.PacketNumberLen) == pnLen && ext.PacketNumber == pn&(protocol.PacketNumber(1)<<(8*uint(pnLen))-1))
}
