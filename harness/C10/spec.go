package quic

//vx:pkg github.com/refraction-networking/uquic
//vx:entry Harness_C10_initial_pn Harness_C10_token
//vx:reach Harness_C10_initial_pn C10.pn.in-range C10.pn.beyond
//vx:reach Harness_C10_token C10.tok.synthesised C10.tok.none C10.tok.explicit C10.tok.prefix-longer-than-length

// the first packet number: every spec value up to 2^62-1 is used as is; anything beyond falls back to 0
func Harness_C10_initial_pn() {
	ps := &InitialPacketSpec{InitPacketNumber: vx_u64("initPN")}
	pn := ps.initialPN()
	vx_assert("C10.pn.valid-packet-number", pn >= 0 && uint64(pn) <= 1<<62-1)
	if ps.InitPacketNumber <= 1<<62-1 {
		vx_reach("C10.pn.in-range")
		vx_assert("C10.pn.as-specified", uint64(pn) == ps.InitPacketNumber)
	} else {
		vx_reach("C10.pn.beyond")
		vx_assert("C10.pn.beyond-range-falls-back-to-zero", pn == 0)
	}
}

type vxTokenStore struct{}

func (vxTokenStore) Pop(string) *ClientToken  { return nil }
func (vxTokenStore) Put(string, *ClientToken) {}

// the token of the Initial packets: explicit store, or synthesised with the given prefix and length
// (the prefix is never truncated), or absent
func Harness_C10_token() {
	plen := vx_range("prefixLen", 0, 6)
	plen = int(vx_concrete_u64(uint64(plen)))
	prefix := vx_bytesN("prefix", plen)
	ps := &InitialPacketSpec{ClientTokenLength: vx_range("tokenLength", -3, 40), ClientTokenPrefix: prefix}
	explicit := vx_bool("explicitStore")
	var own TokenStore = vxTokenStore{}
	if explicit {
		ps.TokenStore = own
	}
	conf := &Config{}
	ps.UpdateConfig(conf)
	if explicit {
		vx_reach("C10.tok.explicit")
		vx_assert("C10.tok.explicit-store-wins", conf.TokenStore == own)
		return
	}
	want := ps.ClientTokenLength
	if plen > want {
		want = plen
		if ps.ClientTokenLength > 0 {
			vx_reach("C10.tok.prefix-longer-than-length")
		}
	}
	if want <= 0 {
		vx_reach("C10.tok.none")
		vx_assert("C10.tok.absent-when-nothing-specified", conf.TokenStore == nil)
		return
	}
	vx_reach("C10.tok.synthesised")
	vx_assert("C10.tok.store-installed", conf.TokenStore != nil)
	t1 := conf.TokenStore.Pop("example.com")
	t2 := conf.TokenStore.Pop("example.com")
	vx_assert("C10.tok.length", t1 != nil && len(t1.data) == want && t2 != nil && len(t2.data) == want)
	if plen > 0 {
		j := vx_range("probe", 0, plen-1)
		vx_assert("C10.tok.prefix-intact", t1.data[j] == prefix[j] && t2.data[j] == prefix[j])
	}
	// fresh per dial: the two tokens do not share storage
	if want > plen {
		old := t2.data[want-1]
		t1.data[want-1] ^= 0xff
		vx_assert("C10.tok.fresh-storage-per-dial", t2.data[want-1] == old)
	}
}
