package quic

//vx:pkg github.com/refraction-networking/uquic
//vx:entry Harness_C12_constructor
//vx:stub github.com/refraction-networking/uquic/internal/handshake.NewUCryptoSetupClient = vxNewUCryptoSetupClient
//vx:stub github.com/refraction-networking/uquic.statelessResetter.GetStatelessResetToken = vxResetToken
//vx:reach Harness_C12_constructor C12.built C12.conn-window C12.stream-count C12.connid-limit

import (
	"context"
	"errors"
	"net"
	"time"

	"github.com/refraction-networking/uquic/internal/handshake"
	"github.com/refraction-networking/uquic/internal/protocol"
	"github.com/refraction-networking/uquic/internal/qerr"
	"github.com/refraction-networking/uquic/internal/utils"
	"github.com/refraction-networking/uquic/internal/wire"
	"github.com/refraction-networking/uquic/qlogwriter"
	tls "github.com/refraction-networking/utls"
)

// engine-side stand-in for the uTLS-based crypto setup (natively the real one is constructed; no handshake is run)
var vxCapturedParams *wire.TransportParameters

func vxNewUCryptoSetupClient(connID protocol.ConnectionID, tp *wire.TransportParameters, tlsConf *tls.Config, enable0RTT bool,
	rttStats *utils.RTTStats, qlogger qlogwriter.Recorder, logger utils.Logger, version protocol.Version, chs *tls.ClientHelloSpec) handshake.CryptoSetup {
	vxCapturedParams = tp
	return nil
}

// engine-side stand-in for the HMAC-SHA256 stateless reset token
func vxResetToken(r *statelessResetter, connID protocol.ConnectionID) protocol.StatelessResetToken {
	return protocol.StatelessResetToken{0x5e}
}

type vxSendConn struct{}

func (vxSendConn) Write([]byte, uint16, protocol.ECN) error { return nil }
func (vxSendConn) WriteTo([]byte, net.Addr) error           { return nil }
func (vxSendConn) Close() error                             { return nil }
func (vxSendConn) LocalAddr() net.Addr                      { return &net.UDPAddr{IP: net.IPv4(127, 0, 0, 1), Port: 1} }
func (vxSendConn) RemoteAddr() net.Addr                     { return &net.UDPAddr{IP: net.IPv4(127, 0, 0, 1), Port: 2} }
func (vxSendConn) ChangeRemoteAddr(net.Addr, packetInfo)    {}
func (vxSendConn) capabilities() connCapabilities           { return connCapabilities{} }

type vxRunner struct{}

func (vxRunner) Add(protocol.ConnectionID, packetHandler) bool                      { return true }
func (vxRunner) Remove(protocol.ConnectionID)                                       {}
func (vxRunner) ReplaceWithClosed([]protocol.ConnectionID, []byte, time.Duration)   {}
func (vxRunner) AddResetToken(protocol.StatelessResetToken, packetHandler)          {}
func (vxRunner) RemoveResetToken(protocol.StatelessResetToken)                      {}

// A spec-driven client built by the real constructor, with the limits its spec puts on the wire symbolic;
// a peer then uses each advertised limit to the full: no locally generated transport error may result.
func Harness_C12_constructor() {
	advMaxData := uint64(vx_range("initial_max_data", 1024, 1<<24))
	advUni := uint64(vx_range("initial_max_streams_uni", 1, 200))
	advCIDs := uint64(vx_range("active_connection_id_limit", 2, 8))
	ext := &tls.QUICTransportParametersExtension{TransportParameters: tls.TransportParameters{
		tls.InitialMaxData(advMaxData),
		tls.InitialMaxStreamDataUni(advMaxData),
		tls.InitialMaxStreamDataBidiLocal(advMaxData),
		tls.InitialMaxStreamDataBidiRemote(advMaxData),
		tls.InitialMaxStreamsUni(advUni),
		tls.InitialMaxStreamsBidi(100),
		tls.ActiveConnectionIDLimit(advCIDs),
		tls.MaxIdleTimeout(30000),
	}}
	spec := &QUICSpec{ClientHelloSpec: &tls.ClientHelloSpec{Extensions: []tls.TLSExtension{ext}}}
	conf := populateConfig(&Config{})
	dcid := protocol.ParseConnectionID([]byte{1, 2, 3, 4, 5, 6, 7, 8})
	scid := protocol.ParseConnectionID([]byte{9, 9, 9, 9})
	wc := newUClientConnection(context.Background(), vxSendConn{}, vxRunner{}, dcid, scid, &protocol.DefaultConnectionIDGenerator{ConnLen: 4},
		newStatelessResetter(nil), conf, &tls.Config{ServerName: "example.com"}, 0, false, false, nil, utils.DefaultLogger, protocol.Version1, spec)
	c := wc.Conn
	vx_reach("C12.built")
	// the server's transport parameters arrive (a conformant server; generous values, its own idle timeout symbolic)
	peerIdle := time.Duration(vx_range("peerIdleTimeoutMs", 0, 120000)) * time.Millisecond
	c.peerParams = &wire.TransportParameters{
		InitialMaxData: 1 << 20, InitialMaxStreamDataBidiLocal: 1 << 20, InitialMaxStreamDataBidiRemote: 1 << 20, InitialMaxStreamDataUni: 1 << 20,
		MaxBidiStreamNum: 100, MaxUniStreamNum: 100, MaxIdleTimeout: peerIdle, ActiveConnectionIDLimit: 4, MaxAckDelay: 25 * time.Millisecond,
		MaxUDPPayloadSize: 1452, AckDelayExponent: 3,
	}
	c.applyTransportParameters()
	// (0) idle timeout: what the client applies is at least min(what it advertised, what the peer advertised)
	advIdle := 30 * time.Second
	want := advIdle
	if peerIdle > 0 && peerIdle < want {
		want = peerIdle
	}
	vx_assert("C12.idle-timeout-not-shorter-than-negotiated", c.idleTimeout >= want)
	// (1) connection-level flow control: the peer sends exactly initial_max_data bytes on one stream
	vx_reach("C12.conn-window")
	err := c.streamsMap.HandleStreamFrame(&wire.StreamFrame{StreamID: 3, Offset: protocol.ByteCount(advMaxData) - 1, Data: []byte{1}}, 1)
	// known finding (open): receive windows are built from Config, not from the spec
	vx_known("C12.peer-may-use-advertised-initial-max-data", advMaxData > conf.InitialStreamReceiveWindow || advMaxData > conf.InitialConnectionReceiveWindow)
	vx_assert("C12.peer-may-use-advertised-initial-max-data", !vxIsTransportErr(err, qerr.FlowControlError))
	if vxIsTransportErr(err, qerr.FlowControlError) {
		vx_stop() // the connection would be closed here
	}
	// (2) stream count: the peer opens the last unidirectional stream it was allowed
	vx_reach("C12.stream-count")
	lastUni := protocol.StreamNum(advUni).StreamID(protocol.StreamTypeUni, protocol.PerspectiveServer)
	err = c.streamsMap.HandleStreamFrame(&wire.StreamFrame{StreamID: lastUni, Data: []byte{1}}, 1)
	// known finding (open): stream concurrency limits are built from Config, not from the spec
	vx_known("C12.peer-may-open-advertised-number-of-streams", advUni > uint64(conf.MaxIncomingUniStreams))
	vx_assert("C12.peer-may-open-advertised-number-of-streams", !vxIsTransportErr(err, qerr.StreamLimitError))
	if vxIsTransportErr(err, qerr.StreamLimitError) {
		vx_stop()
	}
	// (3) connection IDs: the peer issues IDs up to active_connection_id_limit (sequence 0 is the handshake one)
	vx_reach("C12.connid-limit")
	for seq := uint64(1); seq < advCIDs; seq++ {
		err = c.connIDManager.Add(&wire.NewConnectionIDFrame{SequenceNumber: seq, ConnectionID: protocol.ParseConnectionID([]byte{byte(seq), 1, 1, 1}), StatelessResetToken: protocol.StatelessResetToken{byte(seq)}})
		vx_assert("C12.peer-may-issue-advertised-number-of-connection-ids", !vxIsTransportErr(err, qerr.ConnectionIDLimitError))
	}
}

func vxIsTransportErr(err error, code qerr.TransportErrorCode) bool {
	var te *qerr.TransportError
	return err != nil && errors.As(err, &te) && te.ErrorCode == code
}
