package wire

//vx:pkg github.com/refraction-networking/uquic/internal/wire
//vx:entry Harness_C12_record
//vx:param all maxdepth=3000
//vx:reach Harness_C12_record C12.rec.free-value C12.rec.own-iscid C12.rec.spec-iscid C12.rec.with-grease

import (
	"time"

	"github.com/refraction-networking/uquic/internal/protocol"
	tls "github.com/refraction-networking/utls"
)

// "The connection's own record of its parameters equals the bytes it sent": PopulateFromUQUIC on a spec's
// parameter list (all typed parameters, one value free at a time, optional GREASE/fake parameters, the
// initial_source_connection_id given or left to the connection): what a server parses out of the bytes
// that go on the wire (ClientOverride = what uTLS serialises; real Unmarshal) equals the record, field by
// field, and Marshal / MarshalForSessionTicket hand out exactly those bytes.
func Harness_C12_record() {
	which := int(vx_concrete_u64(uint64(vx_choice("freeParameter", 11))))
	val := func(i int, lo, hi, dflt uint64) uint64 {
		if i != which {
			return dflt
		}
		vx_reach("C12.rec.free-value")
		if i == 0 || i == 7 { // durations (multiplied by 10^6 in the code): lattice values
			return vx_concrete_u64([4]uint64{lo, hi, lo + 63, lo + 64}[vx_choice("durationValue", 4)])
		}
		v := vx_u64("value")
		vx_assume(v >= lo && v <= hi)
		return v
	}
	scid := protocol.ParseConnectionID([]byte{9, 9, 9, 9})
	var iscid tls.InitialSourceConnectionID
	if vx_bool("specGivesISCID") {
		iscid = tls.InitialSourceConnectionID{1, 2, 3}
		vx_reach("C12.rec.spec-iscid")
	} else {
		vx_reach("C12.rec.own-iscid")
	}
	params := tls.TransportParameters{
		tls.MaxIdleTimeout(val(0, 5000, 1<<40, 30000)),
		tls.InitialMaxData(val(1, 0, 1<<62-1, 1<<20)),
		tls.InitialMaxStreamDataBidiLocal(val(2, 0, 1<<62-1, 70000)),
		tls.InitialMaxStreamDataBidiRemote(val(3, 0, 1<<62-1, 80000)),
		tls.InitialMaxStreamDataUni(val(4, 0, 1<<62-1, 90000)),
		tls.InitialMaxStreamsBidi(val(5, 0, 1<<60, 100)),
		tls.InitialMaxStreamsUni(val(6, 0, 1<<60, 103)),
		tls.MaxAckDelay(val(7, 0, 1<<14-1, 20)),
		&tls.DisableActiveMigration{},
		tls.ActiveConnectionIDLimit(val(8, 2, 1<<62-1, 8)),
		iscid,
		tls.MaxDatagramFrameSize(val(9, 0, 1<<62-1, 65536)),
	}
	if vx_bool("withGrease") {
		vx_reach("C12.rec.with-grease")
		params = append(tls.TransportParameters{&tls.FakeQUICTransportParameter{Id: 0x4752, Val: []byte{1, 2}}}, params...)
		params = append(params, &tls.GREASETransportParameter{Length: 3})
	}
	rec := &TransportParameters{InitialSourceConnectionID: scid} // as newUClientConnection prepares it
	rec.PopulateFromUQUIC(params)
	wireBytes := rec.ClientOverride
	vx_assert("C12.rec.bytes-are-what-utls-serialises", string(wireBytes) == string(params.Marshal()))
	vx_assert("C12.rec.marshal-hands-out-the-same-bytes", string(rec.Marshal(protocol.PerspectiveClient)) == string(wireBytes) && string(rec.MarshalForSessionTicket(nil)) == string(wireBytes))
	var seen TransportParameters // what the server parses
	err := seen.Unmarshal(wireBytes, protocol.PerspectiveClient)
	vx_assert("C12.rec.server-accepts-the-bytes", err == nil)
	vx_assert("C12.rec.flow-control-values", seen.InitialMaxData == rec.InitialMaxData && seen.InitialMaxStreamDataBidiLocal == rec.InitialMaxStreamDataBidiLocal &&
		seen.InitialMaxStreamDataBidiRemote == rec.InitialMaxStreamDataBidiRemote && seen.InitialMaxStreamDataUni == rec.InitialMaxStreamDataUni)
	vx_assert("C12.rec.stream-counts", seen.MaxBidiStreamNum == rec.MaxBidiStreamNum && seen.MaxUniStreamNum == rec.MaxUniStreamNum)
	vx_assert("C12.rec.idle-timeout", seen.MaxIdleTimeout == rec.MaxIdleTimeout && rec.MaxIdleTimeout >= 5*time.Second)
	vx_assert("C12.rec.max-ack-delay", seen.MaxAckDelay == rec.MaxAckDelay)
	vx_assert("C12.rec.active-connection-id-limit", seen.ActiveConnectionIDLimit == rec.ActiveConnectionIDLimit)
	vx_assert("C12.rec.datagram-frame-size", seen.MaxDatagramFrameSize == rec.MaxDatagramFrameSize)
	vx_assert("C12.rec.disable-active-migration", seen.DisableActiveMigration == rec.DisableActiveMigration)
	vx_assert("C12.rec.initial-source-connection-id", seen.InitialSourceConnectionID == rec.InitialSourceConnectionID)
	if len(iscid) == 0 {
		vx_assert("C12.rec.iscid-is-the-connections-own", seen.InitialSourceConnectionID == scid)
	}
}
