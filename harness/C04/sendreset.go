package quic

//vx:pkg github.com/refraction-networking/uquic
//vx:entry Harness_C04_send_reliable_reset
//vx:param all maxdepth=2000
//vx:reach Harness_C04_send_reliable_reset C04.sr.popped C04.sr.cancelled-with-reliable-prefix C04.sr.blocked-by-stream-window C04.sr.blocked-by-connection-window C04.sr.after-update

import (
	"context"

	"github.com/refraction-networking/uquic/internal/flowcontrol"
	"github.com/refraction-networking/uquic/internal/protocol"
	"github.com/refraction-networking/uquic/internal/utils"
)

type vxSRSender struct{}

func (s *vxSRSender) onHasConnectionData()                                                {}
func (s *vxSRSender) onHasStreamData(protocol.StreamID, *SendStream)                      {}
func (s *vxSRSender) onHasStreamControlFrame(protocol.StreamID, streamControlFrameGetter) {}
func (s *vxSRSender) onStreamCompleted(protocol.StreamID)                                 {}

// The send half of a stream whose peer supports RESET_STREAM_AT, with the real stream and connection flow
// controllers and arbitrary credit on both: write, mark the reliable boundary, optionally write more, optionally cancel
// the write side, then packetise with arbitrary budgets, with an optional MAX_STREAM_DATA update
// in between. Whatever path popNewOrRetransmittedStreamFrame takes (plain, cancelled with a reliable prefix
// still unsent), no STREAM frame ends beyond either limit the peer has advertised, and after a cancel nothing
// beyond the reliable size is sent.
func Harness_C04_send_reliable_reset() {
	rtt := utils.NewRTTStats()
	connFC := flowcontrol.NewConnectionFlowController(1<<20, 1<<20, nil, rtt, utils.DefaultLogger)
	connLimit := protocol.ByteCount(vx_range("connCredit", 0, 1500))
	connFC.UpdateSendWindow(connLimit)
	strFC := flowcontrol.NewStreamFlowController(6, connFC, 1<<20, 1<<20, 0, rtt, utils.DefaultLogger)
	str := newSendStream(context.Background(), 6, &vxSRSender{}, strFC, false)
	str.enableResetStreamAt()
	strLimit := protocol.ByteCount(vx_range("streamCredit", 0, 1500))
	str.updateSendWindow(strLimit)

	n1 := vx_range("firstWrite", 1, 600)
	m, err := str.Write(vx_window("truth", 0, n1))
	vx_assert("C04.sr.write-1", err == nil && m == n1)
	written := protocol.ByteCount(n1)
	reliable := protocol.ByteCount(0)
	str.SetReliableBoundary()
	reliable = written
	if vx_bool("secondWrite") {
		n2 := vx_range("secondWriteLen", 1, 600)
		m, err = str.Write(vx_window("truth", uint64(written), n2))
		vx_assert("C04.sr.write-2", err == nil && m == n2)
		written += protocol.ByteCount(n2)
	}
	cancelled := false
	sent := protocol.ByteCount(0) // highest end offset of any STREAM frame
	pop := func(tag string) {
		f, _, _ := str.popStreamFrame(protocol.ByteCount(vx_range("maxBytes"+tag, int(protocol.MinStreamFrameSize), 1500)), protocol.Version1)
		if f.Frame == nil {
			return
		}
		vx_reach("C04.sr.popped")
		end := f.Frame.Offset + f.Frame.DataLen()
		vx_assert("C04.sr.within-stream-credit", end <= strLimit)
		if end > sent {
			// new bytes: they count against the connection window, which this stream has to itself
			vx_assert("C04.sr.within-connection-credit", end <= connLimit)
			sent = end
		}
		vx_assert("C04.sr.only-written-bytes", end <= written)
		if cancelled {
			vx_assert("C04.sr.nothing-beyond-reliable-size-after-cancel", end <= reliable)
		}
	}
	if vx_bool("cancel") {
		str.CancelWrite(7)
		cancelled = true
		if reliable > sent {
			vx_reach("C04.sr.cancelled-with-reliable-prefix")
		}
	}
	pop("1")
	if sent == strLimit && sent < written {
		vx_reach("C04.sr.blocked-by-stream-window")
	}
	if sent == connLimit && sent < written {
		vx_reach("C04.sr.blocked-by-connection-window")
	}
	if vx_bool("update") {
		l := protocol.ByteCount(vx_range("newStreamCredit", 0, 1500))
		str.updateSendWindow(l)
		if l > strLimit {
			strLimit = l
		}
		vx_reach("C04.sr.after-update")
	}
	pop("2")
}
