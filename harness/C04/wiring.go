package quic

//vx:pkg github.com/refraction-networking/uquic
//vx:entry Harness_C04_initial_send_windows
//vx:reach Harness_C04_initial_send_windows C04.w.uni C04.w.bidi-ours C04.w.bidi-peers

import (
	"github.com/refraction-networking/uquic/internal/flowcontrol"
	"github.com/refraction-networking/uquic/internal/protocol"
	"github.com/refraction-networking/uquic/internal/utils"
	"github.com/refraction-networking/uquic/internal/wire"
)

// The initial per-stream send credit a connection gives each new stream is the one the peer advertised for
// that kind of stream (RFC 9000 section 18.2: initial_max_stream_data_bidi_local applies to streams the
// ADVERTISING endpoint opens, bidi_remote to streams its peer opens): for every stream ID, both perspectives.
func Harness_C04_initial_send_windows() {
	pers := protocol.PerspectiveClient
	if vx_bool("server") {
		pers = protocol.PerspectiveServer
	}
	local := protocol.ByteCount(vx_range("peer_bidi_local", 0, 1<<30))
	remote := protocol.ByteCount(vx_range("peer_bidi_remote", 0, 1<<30))
	uni := protocol.ByteCount(vx_range("peer_uni", 0, 1<<30))
	rtt := utils.NewRTTStats()
	connFC := flowcontrol.NewConnectionFlowController(1<<20, 1<<20, nil, rtt, utils.DefaultLogger)
	connFC.UpdateSendWindow(1 << 40)
	c := &Conn{
		perspective:        pers,
		config:             populateConfig(&Config{}),
		peerParams:         &wire.TransportParameters{InitialMaxStreamDataBidiLocal: local, InitialMaxStreamDataBidiRemote: remote, InitialMaxStreamDataUni: uni},
		connFlowController: connFC,
		rttStats:           rtt,
		logger:             utils.DefaultLogger,
	}
	id := protocol.StreamID(vx_i64("streamID"))
	vx_assume(id >= 0 && id <= protocol.MaxStreamID)
	fc := c.newFlowController(id)
	got := fc.SendWindowSize()
	switch {
	case id.Type() == protocol.StreamTypeUni:
		vx_reach("C04.w.uni")
		vx_assert("C04.w.uni-streams-get-peers-uni-limit", got == uni)
	case id.InitiatedBy() == pers:
		vx_reach("C04.w.bidi-ours")
		vx_assert("C04.w.streams-we-open-get-peers-bidi-remote-limit", got == remote)
	default:
		vx_reach("C04.w.bidi-peers")
		vx_assert("C04.w.streams-the-peer-opens-get-peers-bidi-local-limit", got == local)
	}
}
