package flowcontrol

//vx:pkg github.com/refraction-networking/uquic/internal/flowcontrol
//vx:entry Harness_C04_fc
//vx:param quick steps=4
//vx:param thorough steps=4
//vx:reach Harness_C04_fc C04.recv-ok C04.flow-control-error C04.window-update C04.conn-window-update C04.abandon C04.sent C04.blocked

import (
	"errors"

	"github.com/refraction-networking/uquic/internal/monotime"
	"github.com/refraction-networking/uquic/internal/protocol"
	"github.com/refraction-networking/uquic/internal/qerr"
	"github.com/refraction-networking/uquic/internal/utils"
)

type vxStreamGhost struct {
	adv        protocol.ByteCount // largest limit advertised to the peer
	highest    protocol.ByteCount
	read       protocol.ByteCount // consumed or abandoned
	finalKnown bool
	sendLimit  protocol.ByteCount
	sent       protocol.ByteCount
	everBlocked bool
	lastBlocked protocol.ByteCount
}

// Two streams sharing one connection window, driven through the package API the way
// receive_stream.go / send_stream.go / connection.go drive it.
func Harness_C04_fc() {
	const strWin, strMax = 1000, 4000
	const connWin, connMax = 1500, 6000
	rtt := &utils.RTTStats{} // no RTT sample: auto-tuning off, window sizes stay at their initial value
	conn := NewConnectionFlowController(connWin, connMax, func(protocol.ByteCount) bool { return true }, rtt, utils.DefaultLogger)
	var fc [2]StreamFlowController
	var g [2]vxStreamGhost
	for i := range fc {
		fc[i] = NewStreamFlowController(protocol.StreamID(4*i), conn, strWin, strMax, 0, rtt, utils.DefaultLogger)
		g[i].adv = strWin
	}
	connAdv := protocol.ByteCount(connWin)
	connSendLimit := protocol.ByteCount(0)
	now := monotime.Time(vx_i64("t0"))
	vx_assume(now > 0 && now < 1<<50)
	steps := vx_param("steps")
	for step := 0; step < steps; step++ {
		i := vx_choice("stream", 2)
		s, gs := fc[i], &g[i]
		switch vx_choice("op", 8) {
		case 0: // data (or a final size) arrives on stream i
			off := protocol.ByteCount(vx_i64("offset"))
			fin := vx_bool("final")
			vx_assume(off >= 0 && off <= protocol.MaxByteCount)
			total := g[0].highest + g[1].highest
			if off > gs.highest {
				total += off - gs.highest
			}
			err := s.UpdateHighestReceived(off, fin, now)
			if err != nil {
				var te *qerr.TransportError
				vx_assert("C04.error-type", errors.As(err, &te))
				if te.ErrorCode == qerr.FlowControlError {
					vx_reach("C04.flow-control-error")
					// only the first byte beyond an advertised limit may be answered with FLOW_CONTROL_ERROR
					vx_assert("C04.accepts-within-limits", vx_or(off > gs.adv, total > connAdv))
				} else {
					vx_assert("C04.final-size-error", vx_and(te.ErrorCode == qerr.FinalSizeError, vx_or(gs.finalKnown, vx_and(fin, off < gs.highest))))
				}
				vx_stop()
			}
			vx_reach("C04.recv-ok")
			vx_assert("C04.enforces-stream-limit", off <= gs.adv)
			vx_assert("C04.enforces-conn-limit", total <= connAdv)
			if off > gs.highest {
				gs.highest = off
			}
			if fin {
				gs.finalKnown = true
			}
		case 1: // the application consumes n bytes
			n := protocol.ByteCount(vx_i64("n"))
			vx_assume(n >= 0 && n <= gs.highest-gs.read)
			s.AddBytesRead(n)
			gs.read += n
		case 2: // reset / cancelled read / early close: unread bytes are abandoned
			vx_reach("C04.abandon")
			s.Abandon()
			gs.read = gs.highest
		case 3: // MAX_STREAM_DATA is about to be sent
			if v := s.GetWindowUpdate(now); v != 0 {
				vx_reach("C04.window-update")
				vx_assert("C04.stream-limit-monotonic", v >= gs.adv)
				vx_assert("C04.stream-limit-is-consumed-plus-window", v == gs.read+strWin)
				vx_assert("C04.no-update-after-final-size", !gs.finalKnown)
				gs.adv = v
			}
		case 4: // MAX_DATA is about to be sent
			if v := conn.GetWindowUpdate(now); v != 0 {
				vx_reach("C04.conn-window-update")
				consumed := g[0].read + g[1].read
				vx_assert("C04.conn-limit-monotonic", v >= connAdv)
				// every consumed or abandoned byte is returned exactly once
				vx_assert("C04.conn-limit-is-consumed-plus-window", v == consumed+connWin)
				connAdv = v
			}
		case 5: // MAX_STREAM_DATA / MAX_DATA from the peer (any order, duplicates)
			lim := protocol.ByteCount(vx_i64("limit"))
			vx_assume(lim >= 0 && lim <= protocol.MaxByteCount)
			if vx_bool("connLevel") {
				conn.UpdateSendWindow(lim)
				if lim > connSendLimit {
					connSendLimit = lim
				}
			} else {
				s.UpdateSendWindow(lim)
				if lim > gs.sendLimit {
					gs.sendLimit = lim
				}
			}
		case 6: // the stream sends n new bytes, never more than the window it was shown
			w := s.SendWindowSize()
			n := protocol.ByteCount(vx_i64("send"))
			vx_assume(n >= 0 && n <= w)
			s.AddBytesSent(n)
			gs.sent += n
			if n > 0 {
				vx_reach("C04.sent")
			}
			vx_assert("C04.sender-within-stream-credit", gs.sent <= gs.sendLimit)
			vx_assert("C04.sender-within-conn-credit", g[0].sent+g[1].sent <= connSendLimit)
		case 7:
			if s.IsNewlyBlocked() {
				vx_reach("C04.blocked")
				vx_assert("C04.blocked-means-no-credit", gs.sent >= gs.sendLimit)
				vx_assert("C04.blocked-once-per-limit", vx_or(!gs.everBlocked, gs.lastBlocked != gs.sendLimit))
				gs.everBlocked, gs.lastBlocked = true, gs.sendLimit
			}
		}
	}
}
