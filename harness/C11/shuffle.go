package quic

//vx:pkg github.com/refraction-networking/uquic
//vx:entry Harness_C11_shuffle
//vx:must-reach Harness_C11_shuffle C11.perm.123 C11.perm.132 C11.perm.213 C11.perm.231 C11.perm.312 C11.perm.321

import (
	tls "github.com/refraction-networking/utls"
)

// Randomised transport-parameter order: the result is a permutation of the input, and every one of the
// n! orders of a 3-element list is reachable (a reachability obligation: an order no draw can produce is
// a violation; uniformity itself is a distributional statement and is not decided).
func Harness_C11_shuffle() {
	vx_shuffle_real()
	qtp := &tls.QUICTransportParametersExtension{TransportParameters: tls.TransportParameters{
		&tls.FakeQUICTransportParameter{Id: 1, Val: []byte{1}},
		&tls.FakeQUICTransportParameter{Id: 2, Val: []byte{2}},
		&tls.FakeQUICTransportParameter{Id: 3, Val: []byte{3}},
	}}
	out := ShuffleQUICTransportParameters(qtp)
	vx_assert("C11.shuffle.same-extension", out == qtp && len(out.TransportParameters) == 3)
	a, b, c := out.TransportParameters[0].ID(), out.TransportParameters[1].ID(), out.TransportParameters[2].ID()
	vx_assert("C11.shuffle.is-a-permutation", a != b && b != c && a != c && a >= 1 && a <= 3 && b >= 1 && b <= 3 && c >= 1 && c <= 3)
	switch a*100 + b*10 + c {
	case 123:
		vx_reach("C11.perm.123")
	case 132:
		vx_reach("C11.perm.132")
	case 213:
		vx_reach("C11.perm.213")
	case 231:
		vx_reach("C11.perm.231")
	case 312:
		vx_reach("C11.perm.312")
	case 321:
		vx_reach("C11.perm.321")
	}
}
