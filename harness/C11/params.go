package quic

//vx:pkg github.com/refraction-networking/uquic
//vx:entry Harness_C11_suppress
//vx:param quick maxparams=2 maxsuppress=2
//vx:param thorough maxparams=2 maxsuppress=3
//vx:reach Harness_C11_suppress C11.sup.removed C11.sup.kept C11.sup.grease-removed C11.sup.fake-grease-removed C11.sup.ids

import (
	tls "github.com/refraction-networking/utls"
)

// A transport-parameter list mixing fake/raw parameters with arbitrary identifiers, GREASE parameters
// with a random identifier, and typed ones; an arbitrary suppression set. The result is the
// order-preserving filter by the documented rule, suppression is idempotent, and the ID list the spec
// reports is the sorted canonicalised ID list of what is left.
func Harness_C11_suppress() {
	n := vx_range("n", 0, vx_param("maxparams"))
	var params tls.TransportParameters
	for i := 0; i < n; i++ {
		switch vx_choice("kind", 3) {
		case 0:
			id := vx_u64("fakeID")
			vx_assume(id >= 1 && id < 1<<62) // utls rejects a fake parameter without an identifier
			params = append(params, &tls.FakeQUICTransportParameter{Id: id, Val: []byte{byte(i)}})
		case 1:
			params = append(params, &tls.GREASETransportParameter{Length: 2})
		case 2:
			params = append(params, tls.MaxIdleTimeout(30000))
		}
	}
	k := vx_range("nsuppress", 0, vx_param("maxsuppress"))
	var suppress []uint64
	has27 := false
	for i := 0; i < k; i++ {
		s := vx_u64("suppressID")
		vx_assume(s < 1<<62)
		suppress = append(suppress, s)
		has27 = vx_or(has27, s == QTPGrease)
	}
	// the identifiers as they will go on the wire (a GREASE parameter draws its identifier on first use)
	orig := make([]tls.TransportParameter, len(params))
	copy(orig, params)
	ids := make([]uint64, len(params))
	for i, tp := range orig {
		ids[i] = tp.ID()
	}
	qtp := &tls.QUICTransportParametersExtension{TransportParameters: params}
	out := SuppressQUICTransportParameters(qtp, suppress)
	vx_assert("C11.sup.returns-same-extension", out == qtp)
	// reference: keep a parameter iff its identifier is not listed and it is not a GREASE identifier while 27 is listed
	j := 0
	for i := range orig {
		listed := false
		for _, s := range suppress {
			listed = vx_or(listed, s == ids[i])
		}
		isGrease := ids[i] >= 27 && (ids[i]-27)%31 == 0
		drop := vx_or(listed, vx_and(has27, isGrease))
		if drop {
			vx_reach("C11.sup.removed")
			if isGrease && !listed {
				vx_reach("C11.sup.grease-removed")
				if _, fake := orig[i].(*tls.FakeQUICTransportParameter); fake {
					vx_reach("C11.sup.fake-grease-removed")
				}
			}
			continue
		}
		vx_reach("C11.sup.kept")
		vx_assert("C11.sup.kept-parameter-present-in-order", j < len(out.TransportParameters) && out.TransportParameters[j] == orig[i])
		j++
	}
	vx_assert("C11.sup.nothing-else-left", j == len(out.TransportParameters))
	// idempotent
	before := make([]tls.TransportParameter, len(out.TransportParameters))
	copy(before, out.TransportParameters)
	out2 := SuppressQUICTransportParameters(out, suppress)
	same := len(out2.TransportParameters) == len(before)
	if same {
		for i := range before {
			if out2.TransportParameters[i] != before[i] {
				same = false
			}
		}
	}
	vx_assert("C11.sup.idempotent", same)
	// the ID list the spec reports = what a fingerprinter canonicalising the wire sees
	spec := &QUICSpec{ClientHelloSpec: &tls.ClientHelloSpec{Extensions: []tls.TLSExtension{qtp}}, SuppressTransportParameters: suppress}
	got := spec.TransportParameterIDs()
	vx_reach("C11.sup.ids")
	vx_assert("C11.ids.length", len(got) == len(before))
	sorted := true
	for i := 1; i < len(got); i++ {
		sorted = vx_and(sorted, got[i-1] <= got[i])
	}
	vx_assert("C11.ids.sorted", sorted)
	p := vx_u64("idProbe")
	cntGot, cntWant := 0, 0
	for _, g := range got {
		cntGot += vx_ite_int(g == p, 1, 0)
	}
	for _, tp := range before {
		id := tp.ID()
		if id >= 27 && (id-27)%31 == 0 {
			id = 27
		}
		cntWant += vx_ite_int(id == p, 1, 0)
	}
	vx_assert("C11.ids.same-multiset-as-wire", cntGot == cntWant)
}
