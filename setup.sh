#!/bin/sh
# Builds the vx symbolic executor offline from the module cache.
set -e
export PATH=/opt/veriftools/go1.26.8/bin:$PATH GOFLAGS=-mod=mod GOPROXY=off GOSUMDB=off GOTOOLCHAIN=local
cd /verif/vx
mkdir -p /verif/bin
go build -o /verif/bin/vx .
echo "vx built"
