#!/bin/sh
# usage: tools/runall.sh quick|thorough  — runs every claimed check, one after the other, logs under /tmp/runall-<tier>/
tier="$1"; out=/tmp/runall-$tier; mkdir -p $out
cd /verif
for id in $(python3 -c "import json;print(' '.join(c['property_id'] for c in json.load(open('/verif/MANIFEST.json'))['checks']))"); do
  start=$(date +%s)
  ./check $id --tier $tier > $out/$id.log 2>&1
  code=$?
  echo "$id exit=$code secs=$(( $(date +%s) - start )) $(tail -1 $out/$id.log | cut -c1-160)" >> $out/SUMMARY
done
echo DONE >> $out/SUMMARY
