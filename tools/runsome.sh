#!/bin/sh
# usage: tools/runsome.sh quick|thorough <outdir> id...   — runs the listed checks one after the other
tier="$1"; out="$2"; shift 2; mkdir -p $out
cd /verif
for id in "$@"; do
  start=$(date +%s)
  ./check $id --tier $tier > $out/$id.log 2>&1
  code=$?
  echo "$id exit=$code secs=$(( $(date +%s) - start )) $(tail -1 $out/$id.log | cut -c1-160)" >> $out/SUMMARY
done
echo DONE >> $out/SUMMARY
