#!/bin/sh
# usage: tools/mut.sh <patch.diff> <prop> [extra vx args]  — apply a seeded change to /repo, run the check, undo.
patch="$1"; prop="$2"; shift 2
git -C /repo apply "$patch" 2>/dev/null || git -C /repo apply --3way "$patch" || { echo "patch does not apply"; git -C /repo reset -q --hard HEAD; exit 3; }
trap 'git -C /repo reset -q --hard HEAD ; git -C /repo status --short | grep -v gomodvendor' EXIT
timeout ${MUT_TIMEOUT:-1500} /verif/bin/vx check -prop "$prop" -tier ${TIER:-quick} -no-evidence "$@" 2>&1 | tail -${TAIL:-6}
