#!/usr/bin/env python3
# Regenerates /verif/MANIFEST.json from tools/claims.json (claimed checks) and properties.jsonl.
import json, os
root = os.path.dirname(os.path.dirname(os.path.abspath(__file__)))
props = [json.loads(l) for l in open(os.path.join(root, 'properties.jsonl'))]
claims = json.load(open(os.path.join(root, 'tools', 'claims.json')))
checks = []
na = []
for p in props:
    pid = p['id']
    c = claims['claimed'].get(pid)
    if c and os.path.isdir(os.path.join(root, 'harness', pid)):
        checks.append({
            "property_id": pid,
            "quick_cmd": f"./check {pid} --tier quick",
            "thorough_cmd": f"./check {pid} --tier thorough",
            "evidence_file": f"/verif/evidence/{pid}.json",
            "replay_cmd_template": f"./check {pid} --replay {{path}}",
            "engine": "vx",
            "level_claimed": {"category": "model_checking", "text": c['text'], "design_ref": c.get('design_ref', 'DESIGN.md §4 ' + pid)},
            "level_note": c['note'],
            "technique": c.get('technique', "bounded symbolic execution of the real Go SSA (own engine) with SMT-decided branches and assertions (z3); counterexamples replayed natively"),
        })
    else:
        na.append({"property_id": pid, "reason": claims['not_applicable'].get(pid, "check not built yet (see DESIGN.md)")})
m = {
 "version": 1,
 "setup_cmd": "./setup.sh",
 "hooks": {"guard": "verif", "enable": "none needed: harnesses are injected into the package with go/packages and `go test -overlay`; no file under /repo is changed",
           "baseline_off_cmd": "cd /repo && export PATH=/opt/veriftools/go1.26.8/bin:$PATH GOTOOLCHAIN=local GOFLAGS=-mod=mod GOPROXY=off && go test -vet=off -count=1 -timeout 25m ./...",
           "source_commits": claims.get('source_commits', []), "add_only": True},
 "engines": [{"name": "vx", "path": "/verif/vx", "serves_properties": [c['property_id'] for c in checks],
              "kind_free_text": "own symbolic executor for go/ssa of the real code (path-wise, re-execution forking, functional-history byte arrays); SMT-LIB2 to z3 5.1 (incremental + one-shot escalation); witnesses and counterexamples replayed against the natively compiled harness"}],
 "checks": checks,
 "notes": claims.get('notes', ''),
 "not_applicable": na,
}
json.dump(m, open(os.path.join(root, 'MANIFEST.json'), 'w'), indent=1)
print("claimed:", [c['property_id'] for c in checks], "na:", [n['property_id'] for n in na])
