package main

// Intrinsics (vx_* prelude functions) and models of library functions that are not interpreted.

import (
	"fmt"
	"go/types"
	"strings"

	"golang.org/x/tools/go/ssa"
)

type extFn func(p *Path, fr *Frame, fn *ssa.Function, args []Value) Value

var externals = map[string]extFn{}

func init() {
	// ---- sync ----
	externals["(*sync.Mutex).Lock"] = func(p *Path, fr *Frame, fn *ssa.Function, a []Value) Value {
		s := a[0].(Ptr).slot
		if p.mutexes[s] != 0 {
			panic(pathEnd{endBlocked, "self-deadlock: sync.Mutex.Lock on a locked mutex at " + p.site(fr)})
		}
		p.mutexes[s] = 1
		return nil
	}
	externals["(*sync.Mutex).TryLock"] = func(p *Path, fr *Frame, fn *ssa.Function, a []Value) Value {
		s := a[0].(Ptr).slot
		if p.mutexes[s] != 0 {
			return p.tt.False()
		}
		p.mutexes[s] = 1
		return p.tt.True()
	}
	externals["(*sync.Mutex).Unlock"] = func(p *Path, fr *Frame, fn *ssa.Function, a []Value) Value {
		s := a[0].(Ptr).slot
		if p.mutexes[s] == 0 {
			panic(goPanic{val: Iface{}, site: p.site(fr), msg: "fatal error: sync: unlock of unlocked mutex"})
		}
		p.mutexes[s] = 0
		return nil
	}
	externals["(*sync.RWMutex).Lock"] = func(p *Path, fr *Frame, fn *ssa.Function, a []Value) Value {
		s := a[0].(Ptr).slot
		if p.mutexes[s] != 0 {
			panic(pathEnd{endBlocked, "self-deadlock: sync.RWMutex.Lock at " + p.site(fr)})
		}
		p.mutexes[s] = -1
		return nil
	}
	externals["(*sync.RWMutex).Unlock"] = func(p *Path, fr *Frame, fn *ssa.Function, a []Value) Value {
		s := a[0].(Ptr).slot
		if p.mutexes[s] != -1 {
			panic(goPanic{val: Iface{}, site: p.site(fr), msg: "fatal error: sync: Unlock of unlocked RWMutex"})
		}
		p.mutexes[s] = 0
		return nil
	}
	externals["(*sync.RWMutex).RLock"] = func(p *Path, fr *Frame, fn *ssa.Function, a []Value) Value {
		s := a[0].(Ptr).slot
		if p.mutexes[s] == -1 {
			panic(pathEnd{endBlocked, "self-deadlock: sync.RWMutex.RLock while write-locked at " + p.site(fr)})
		}
		p.mutexes[s]++
		return nil
	}
	externals["(*sync.RWMutex).RUnlock"] = func(p *Path, fr *Frame, fn *ssa.Function, a []Value) Value {
		s := a[0].(Ptr).slot
		if p.mutexes[s] <= 0 {
			panic(goPanic{val: Iface{}, site: p.site(fr), msg: "fatal error: sync: RUnlock of unlocked RWMutex"})
		}
		p.mutexes[s]--
		return nil
	}
	externals["(*sync.Once).Do"] = func(p *Path, fr *Frame, fn *ssa.Function, a []Value) Value {
		s := a[0].(Ptr).slot
		if p.onceDone[s] {
			return nil
		}
		p.onceDone[s] = true
		p.callValue(fr, a[1], nil, false)
		return nil
	}
	externals["(*sync.Pool).Get"] = func(p *Path, fr *Frame, fn *ssa.Function, a []Value) Value {
		st := (*a[0].(Ptr).slot).(Struct)
		// the New field is the last field of sync.Pool
		nf := st[len(st)-1]
		if c, ok := nf.(*Closure); ok && c == nil {
			return Iface{}
		}
		if nf == nil {
			return Iface{}
		}
		return p.callValue(fr, nf, nil, false)
	}
	externals["(*sync.Pool).Put"] = func(p *Path, fr *Frame, fn *ssa.Function, a []Value) Value { return nil }
	externals["(*sync.WaitGroup).Add"] = func(p *Path, fr *Frame, fn *ssa.Function, a []Value) Value { return nil }
	externals["(*sync.WaitGroup).Done"] = func(p *Path, fr *Frame, fn *ssa.Function, a []Value) Value { return nil }
	externals["(*sync.WaitGroup).Wait"] = func(p *Path, fr *Frame, fn *ssa.Function, a []Value) Value { return nil }

	// ---- sync/atomic typed values: struct{_ noCopy; [_ align64;] v T} ----
	atomicField := func(p *Path, a Value) *Value {
		st := (*a.(Ptr).slot).(Struct)
		return &st[len(st)-1]
	}
	for _, ty := range []string{"Int32", "Int64", "Uint32", "Uint64", "Uintptr", "Bool"} {
		ty := ty
		externals["(*sync/atomic."+ty+").Load"] = func(p *Path, fr *Frame, fn *ssa.Function, a []Value) Value {
			v := *atomicField(p, a[0])
			if ty == "Bool" {
				return p.tt.Not(p.tt.Eq(v.(*Term), p.tt.Const(BV32, 0)))
			}
			return v
		}
		externals["(*sync/atomic."+ty+").Store"] = func(p *Path, fr *Frame, fn *ssa.Function, a []Value) Value {
			f := atomicField(p, a[0])
			if ty == "Bool" {
				*f = p.tt.Ite(a[1].(*Term), p.tt.Const(BV32, 1), p.tt.Const(BV32, 0))
				return nil
			}
			*f = a[1]
			return nil
		}
		externals["(*sync/atomic."+ty+").Add"] = func(p *Path, fr *Frame, fn *ssa.Function, a []Value) Value {
			f := atomicField(p, a[0])
			*f = p.tt.Bin(OAdd, (*f).(*Term), a[1].(*Term))
			return *f
		}
		externals["(*sync/atomic."+ty+").Swap"] = func(p *Path, fr *Frame, fn *ssa.Function, a []Value) Value {
			f := atomicField(p, a[0])
			if ty == "Bool" {
				old := p.tt.Not(p.tt.Eq((*f).(*Term), p.tt.Const(BV32, 0)))
				*f = p.tt.Ite(a[1].(*Term), p.tt.Const(BV32, 1), p.tt.Const(BV32, 0))
				return old
			}
			old := *f
			*f = a[1]
			return old
		}
		externals["(*sync/atomic."+ty+").CompareAndSwap"] = func(p *Path, fr *Frame, fn *ssa.Function, a []Value) Value {
			f := atomicField(p, a[0])
			if ty == "Bool" {
				cur := p.tt.Not(p.tt.Eq((*f).(*Term), p.tt.Const(BV32, 0)))
				if p.branch(p.tt.Eq(cur, a[1].(*Term))) {
					*f = p.tt.Ite(a[2].(*Term), p.tt.Const(BV32, 1), p.tt.Const(BV32, 0))
					return p.tt.True()
				}
				return p.tt.False()
			}
			if p.branch(p.tt.Eq((*f).(*Term), a[1].(*Term))) {
				*f = a[2]
				return p.tt.True()
			}
			return p.tt.False()
		}
	}
	externals["(*sync/atomic.Value).Load"] = func(p *Path, fr *Frame, fn *ssa.Function, a []Value) Value {
		st := (*a[0].(Ptr).slot).(Struct)
		return st[0]
	}
	externals["(*sync/atomic.Value).Store"] = func(p *Path, fr *Frame, fn *ssa.Function, a []Value) Value {
		st := (*a[0].(Ptr).slot).(Struct)
		st[0] = a[1]
		return nil
	}
	// free functions
	for _, ty := range []string{"Int32", "Int64", "Uint32", "Uint64", "Uintptr"} {
		externals["sync/atomic.Load"+ty] = func(p *Path, fr *Frame, fn *ssa.Function, a []Value) Value { return p.load(fr, a[0]) }
		externals["sync/atomic.Store"+ty] = func(p *Path, fr *Frame, fn *ssa.Function, a []Value) Value {
			p.store(fr, a[0], a[1])
			return nil
		}
		externals["sync/atomic.Add"+ty] = func(p *Path, fr *Frame, fn *ssa.Function, a []Value) Value {
			v := p.tt.Bin(OAdd, p.load(fr, a[0]).(*Term), a[1].(*Term))
			p.store(fr, a[0], v)
			return v
		}
		externals["sync/atomic.CompareAndSwap"+ty] = func(p *Path, fr *Frame, fn *ssa.Function, a []Value) Value {
			if p.branch(p.tt.Eq(p.load(fr, a[0]).(*Term), a[1].(*Term))) {
				p.store(fr, a[0], a[2])
				return p.tt.True()
			}
			return p.tt.False()
		}
	}
	// atomic.Pointer[T] instantiations are matched by prefix in lookupExternal

	// ---- time ---- (time.Time is modelled as {wall: 0, ext: ns on the model clock, loc: nil}; wall-clock
	// calendar functions are outside the model)
	tm := func(p *Path, ns *Term) Value { return Struct{p.tt.U64(0), ns, Ptr{}} }
	tns := func(v Value) *Term { return v.(Struct)[1].(*Term) }
	externals["time.Now"] = func(p *Path, fr *Frame, fn *ssa.Function, a []Value) Value { return tm(p, p.now()) }
	externals["(time.Time).Add"] = func(p *Path, fr *Frame, fn *ssa.Function, a []Value) Value {
		return tm(p, p.tt.Bin(OAdd, tns(a[0]), a[1].(*Term)))
	}
	externals["(time.Time).Sub"] = func(p *Path, fr *Frame, fn *ssa.Function, a []Value) Value {
		return p.tt.Bin(OSub, tns(a[0]), tns(a[1]))
	}
	externals["(time.Time).After"] = func(p *Path, fr *Frame, fn *ssa.Function, a []Value) Value {
		return p.tt.Cmp(OSlt, tns(a[1]), tns(a[0]))
	}
	externals["(time.Time).Before"] = func(p *Path, fr *Frame, fn *ssa.Function, a []Value) Value {
		return p.tt.Cmp(OSlt, tns(a[0]), tns(a[1]))
	}
	externals["(time.Time).Equal"] = func(p *Path, fr *Frame, fn *ssa.Function, a []Value) Value {
		return p.tt.Eq(tns(a[0]), tns(a[1]))
	}
	externals["(time.Time).Compare"] = func(p *Path, fr *Frame, fn *ssa.Function, a []Value) Value {
		x, y := tns(a[0]), tns(a[1])
		return p.tt.Ite(p.tt.Cmp(OSlt, x, y), p.tt.I64(-1), p.tt.Ite(p.tt.Eq(x, y), p.tt.I64(0), p.tt.I64(1)))
	}
	externals["(time.Time).IsZero"] = func(p *Path, fr *Frame, fn *ssa.Function, a []Value) Value {
		return p.tt.Eq(tns(a[0]), p.tt.U64(0))
	}
	externals["(time.Time).UnixNano"] = func(p *Path, fr *Frame, fn *ssa.Function, a []Value) Value { return tns(a[0]) }
	externals["time.Since"] = func(p *Path, fr *Frame, fn *ssa.Function, a []Value) Value {
		return p.tt.Bin(OSub, p.now(), tns(a[0]))
	}
	externals["time.Until"] = func(p *Path, fr *Frame, fn *ssa.Function, a []Value) Value {
		return p.tt.Bin(OSub, tns(a[0]), p.now())
	}
	mono := "github.com/refraction-networking/uquic/internal/monotime."
	externals[mono+"Now"] = func(p *Path, fr *Frame, fn *ssa.Function, a []Value) Value { return p.now() }
	externals[mono+"Since"] = func(p *Path, fr *Frame, fn *ssa.Function, a []Value) Value {
		return p.tt.Bin(OSub, p.now(), a[0].(*Term))
	}
	externals[mono+"Until"] = func(p *Path, fr *Frame, fn *ssa.Function, a []Value) Value {
		return p.tt.Bin(OSub, a[0].(*Term), p.now())
	}
	externals[mono+"FromTime"] = func(p *Path, fr *Frame, fn *ssa.Function, a []Value) Value { return tns(a[0]) }
	externals["("+mono+"Time).ToTime"] = func(p *Path, fr *Frame, fn *ssa.Function, a []Value) Value { return tm(p, a[0].(*Term)) }
	newTimer := func(p *Path, fn *ssa.Function, d *Term) Value {
		// *time.Timer with a virtual channel
		tt := fn.Signature.Results().At(0).Type().Underlying().(*types.Pointer).Elem()
		st := p.zero(tt).(Struct)
		ch := &Chan{cap: 1}
		vt := &VTimer{ch: ch, active: true, deadline: p.tt.Bin(OAdd, p.now(), d)}
		ch.timer = vt
		st[0] = ch
		slot := new(Value)
		*slot = st
		p.timers = append(p.timers, vt)
		p.timerOf[slot] = vt
		return Ptr{slot: slot}
	}
	externals["time.NewTimer"] = func(p *Path, fr *Frame, fn *ssa.Function, a []Value) Value { return newTimer(p, fn, a[0].(*Term)) }
	externals["time.AfterFunc"] = func(p *Path, fr *Frame, fn *ssa.Function, a []Value) Value {
		// the callback would run on its own goroutine: outside the model; the timer never fires here
		v := newTimer(p, fn, a[0].(*Term))
		vt := p.timerOf[v.(Ptr).slot]
		vt.active = false
		vt.fn, vt.pending = a[1], true
		p.res.Stubs["time.AfterFunc callbacks run only where the harness calls vx_run_timers() (A-SEQ)"] = true
		return v
	}
	externals["(*time.Timer).Stop"] = func(p *Path, fr *Frame, fn *ssa.Function, a []Value) Value {
		vt := p.timerOf[a[0].(Ptr).slot]
		if vt == nil {
			return p.tt.False()
		}
		was := vt.active
		vt.active = false
		vt.pending = false
		return p.tt.BoolC(was)
	}
	externals["(*time.Timer).Reset"] = func(p *Path, fr *Frame, fn *ssa.Function, a []Value) Value {
		vt := p.timerOf[a[0].(Ptr).slot]
		if vt == nil {
			p.unsupported("Reset of unknown timer")
		}
		was := vt.active
		vt.active = true
		vt.ch.buf = nil
		vt.deadline = p.tt.Bin(OAdd, p.now(), a[1].(*Term))
		return p.tt.BoolC(was)
	}

	// ---- crypto/rand: every Read is a fresh symbolic byte string (natively: a scripted rand.Reader) ----
	externals["crypto/rand.Read"] = func(p *Path, fr *Frame, fn *ssa.Function, a []Value) Value {
		b := a[0].(BSlice)
		if b.arr != nil {
			name := p.fresh("rand")
			p.inputs = append(p.inputs, InputRec{Name: name, Kind: "rand"})
			p.arrCopy(b.arr, b.off, &ANode{kind: aUF, name: name}, p.tt.U64(0), b.n)
			return Tuple{b.n, Iface{}}
		}
		p.fresh("rand")
		return Tuple{p.tt.U64(0), Iface{}}
	}

	// utils.Rand.Int31n uses rejection sampling over crypto/rand; the retry loop is cut: the draw is
	// assumed not to be rejected (probability of a retry < 2^-17 per call for the n in use)
	externals["(*github.com/refraction-networking/uquic/internal/utils.Rand).Int31n"] = func(p *Path, fr *Frame, fn *ssa.Function, a []Value) Value {
		tt := p.tt
		n := a[1].(*Term)
		if !n.IsConst() {
			p.unsupported("Rand.Int31n with symbolic bound")
		}
		name := p.fresh("rand")
		p.inputs = append(p.inputs, InputRec{Name: name, Kind: "rand"})
		v := tt.Const(BV32, 0)
		for i := 0; i < 4; i++ {
			b := tt.App(name, BV8, tt.U64(uint64(i)))
			v = tt.Bin(OOr, tt.Bin(OShl, v, tt.Const(BV32, 8)), tt.Zext(b, 32))
		}
		v = tt.Bin(OAnd, v, tt.Const(BV32, 0x7fffffff))
		nn := uint32(n.C)
		if nn&(nn-1) == 0 {
			return tt.Bin(OAnd, v, tt.Const(BV32, uint64(nn-1)))
		}
		max := uint32((1 << 31) - 1 - (1<<31)%nn)
		p.assume(tt.Cmp(OUle, v, tt.Const(BV32, uint64(max))))
		return tt.Bin(OURem, v, tt.Const(BV32, uint64(nn)))
	}

	// ---- math/big (64-bit payloads only) and crypto/rand.Int ----
	bigOf := func(p *Path, t *Term) Value {
		slot := new(Value)
		*slot = Struct{t}
		return Ptr{slot: slot}
	}
	bigVal := func(p *Path, v Value) *Term {
		ptr, ok := v.(Ptr)
		if !ok || ptr.slot == nil {
			p.unsupported("math/big: nil or foreign *big.Int")
		}
		st, ok := (*ptr.slot).(Struct)
		if !ok || len(st) != 1 {
			p.unsupported("math/big: value not created by the model")
		}
		return st[0].(*Term)
	}
	externals["math/big.NewInt"] = func(p *Path, fr *Frame, fn *ssa.Function, a []Value) Value { return bigOf(p, a[0].(*Term)) }
	externals["(*math/big.Int).Uint64"] = func(p *Path, fr *Frame, fn *ssa.Function, a []Value) Value { return bigVal(p, a[0]) }
	externals["(*math/big.Int).Int64"] = func(p *Path, fr *Frame, fn *ssa.Function, a []Value) Value { return bigVal(p, a[0]) }
	externals["(*math/big.Int).IsUint64"] = func(p *Path, fr *Frame, fn *ssa.Function, a []Value) Value {
		return p.tt.Cmp(OSle, p.tt.U64(0), bigVal(p, a[0]))
	}
	externals["(*math/big.Int).IsInt64"] = func(p *Path, fr *Frame, fn *ssa.Function, a []Value) Value { return p.tt.True() }
	externals["(*math/big.Int).Sign"] = func(p *Path, fr *Frame, fn *ssa.Function, a []Value) Value {
		v := bigVal(p, a[0])
		tt := p.tt
		return tt.Ite(tt.Cmp(OSlt, v, tt.U64(0)), tt.I64(-1), tt.Ite(tt.Eq(v, tt.U64(0)), tt.I64(0), tt.I64(1)))
	}
	// crypto/rand.Int(reader, max): uniform in [0,max); panics if max <= 0. The bytes come from the same
	// scripted source as crypto/rand.Read (k = ceil(bitlen(max-1)/8) bytes, top bits masked); the
	// rejection-sampling retry is cut (the draw is assumed to be < max).
	externals["crypto/rand.Int"] = func(p *Path, fr *Frame, fn *ssa.Function, a []Value) Value {
		tt := p.tt
		max := bigVal(p, a[1])
		if p.branch(tt.Cmp(OSle, max, tt.U64(0))) {
			panic(goPanic{val: Iface{t: types.Typ[types.String], v: Str{c: "crypto/rand: argument to Int is <= 0"}}, site: p.site(fr), msg: "crypto/rand: argument to Int is <= 0"})
		}
		nm1 := tt.Bin(OSub, max, tt.U64(1))
		bl := int(p.concretize(p.bitsLen(nm1, 64), "bit length of rand.Int bound"))
		if bl == 0 {
			return Tuple{bigOf(p, tt.U64(0)), Iface{}}
		}
		k := (bl + 7) / 8
		b := bl % 8
		if b == 0 {
			b = 8
		}
		name := p.fresh("rand")
		p.inputs = append(p.inputs, InputRec{Name: name, Kind: "rand"})
		v := tt.U64(0)
		for i := 0; i < k; i++ {
			by := tt.App(name, BV8, tt.U64(uint64(i)))
			if i == 0 {
				by = tt.Bin(OAnd, by, tt.Const(BV8, uint64((1<<uint(b))-1)))
			}
			v = tt.Bin(OOr, tt.Bin(OShl, v, tt.U64(8)), tt.Zext(by, 64))
		}
		p.assume(tt.Cmp(OUlt, v, max))
		if p.concRand {
			// case split over every possible draw (harness asked for it: the layout downstream is then constant)
			v = tt.U64(p.concretize(v, "rand.Int draw"))
		}
		return Tuple{bigOf(p, v), Iface{}}
	}
	// math/rand.Shuffle: modelled as the identity permutation (assumption A-ORDER: what is asserted does
	// not depend on the order of the shuffled elements); natively the real shuffle runs
	externals["(*math/rand/v2.Rand).Shuffle"] = func(p *Path, fr *Frame, fn *ssa.Function, a []Value) Value {
		p.res.Stubs["(*math/rand/v2.Rand).Shuffle = identity (A-ORDER)"] = true
		return nil
	}
	externals["math/rand.Shuffle"] = func(p *Path, fr *Frame, fn *ssa.Function, a []Value) Value {
		if p.shuffleReal {
			// Fisher-Yates exactly as math/rand does it, every swap index a fresh draw split into its values
			p.res.Stubs["math/rand.Shuffle = Fisher-Yates over symbolic draws"] = true
			n := int(p.concretize(a[0].(*Term), "Shuffle n"))
			for i := n - 1; i > 0; i-- {
				j := p.tt.Var(p.fresh("shuffle"), BV64)
				p.inputs = append(p.inputs, InputRec{Name: j.Name, Kind: "internal"})
				p.assume(p.tt.Cmp(OUle, j, p.tt.U64(uint64(i))))
				jc := p.concretize(j, "Shuffle index")
				p.callValue(fr, a[1], []Value{p.tt.I64(int64(i)), p.tt.I64(int64(jc))}, false)
			}
			return nil
		}
		p.res.Stubs["math/rand.Shuffle = identity (A-ORDER)"] = true
		return nil
	}

	externals["(*internal/godebug.Setting).Value"] = func(p *Path, fr *Frame, fn *ssa.Function, a []Value) Value { return Str{} }
	externals["(*internal/godebug.Setting).IncNonDefault"] = func(p *Path, fr *Frame, fn *ssa.Function, a []Value) Value { return nil }
	externals["(*internal/godebug.Setting).Name"] = func(p *Path, fr *Frame, fn *ssa.Function, a []Value) Value { return Str{} }

	// sort.Slice / sort.SliceStable (reflection-based swapper): insertion sort calling the real less closure
	sortSlice := func(p *Path, fr *Frame, fn *ssa.Function, a []Value) Value {
		it, _ := a[0].(Iface)
		less := a[1]
		callLess := func(i, j int) bool {
			r := p.callValue(fr, less, []Value{p.tt.I64(int64(i)), p.tt.I64(int64(j))}, false)
			return p.branch(r.(*Term))
		}
		switch s := it.v.(type) {
		case GSlice:
			for i := 1; i < s.n; i++ {
				for j := i; j > 0 && callLess(j, j-1); j-- {
					c := s.arr.cells
					c[s.off+j], c[s.off+j-1] = c[s.off+j-1], c[s.off+j]
				}
			}
		case BSlice:
			if s.arr == nil {
				return nil
			}
			n := p.concLen(s.n, "sort.Slice length")
			for i := 1; i < n; i++ {
				for j := i; j > 0 && callLess(j, j-1); j-- {
					ia := p.tt.Bin(OAdd, s.off, p.tt.U64(uint64(j)))
					ib := p.tt.Bin(OAdd, s.off, p.tt.U64(uint64(j-1)))
					va, vb := p.arrRead(s.arr.head, ia, s.arr.elem), p.arrRead(s.arr.head, ib, s.arr.elem)
					p.arrWrite(s.arr, ia, vb)
					p.arrWrite(s.arr, ib, va)
				}
			}
		default:
			p.unsupported("sort.Slice on %T", it.v)
		}
		return nil
	}
	externals["sort.Slice"] = sortSlice
	externals["sort.SliceStable"] = sortSlice

	// ---- os / runtime / misc ----
	externals["os.Getenv"] = func(p *Path, fr *Frame, fn *ssa.Function, a []Value) Value { return Str{} }
	externals["os.LookupEnv"] = func(p *Path, fr *Frame, fn *ssa.Function, a []Value) Value {
		return Tuple{Str{}, p.tt.False()}
	}
	externals["runtime.SetFinalizer"] = func(p *Path, fr *Frame, fn *ssa.Function, a []Value) Value { return nil }
	externals["runtime.KeepAlive"] = func(p *Path, fr *Frame, fn *ssa.Function, a []Value) Value { return nil }
	externals["runtime.Gosched"] = func(p *Path, fr *Frame, fn *ssa.Function, a []Value) Value { return nil }

	// ---- fmt / log: opaque strings ----
	externals["fmt.Sprintf"] = func(p *Path, fr *Frame, fn *ssa.Function, a []Value) Value {
		return Str{c: "<fmt:" + p.fmtString(a[0]) + ">"}
	}
	externals["fmt.Sprint"] = func(p *Path, fr *Frame, fn *ssa.Function, a []Value) Value { return Str{c: "<fmt.Sprint>"} }
	externals["fmt.Sprintln"] = func(p *Path, fr *Frame, fn *ssa.Function, a []Value) Value { return Str{c: "<fmt.Sprintln>"} }
	externals["fmt.Printf"] = func(p *Path, fr *Frame, fn *ssa.Function, a []Value) Value {
		return Tuple{p.tt.U64(0), Iface{}}
	}
	externals["fmt.Println"] = externals["fmt.Printf"]
	externals["fmt.Print"] = externals["fmt.Printf"]
	externals["fmt.Fprintf"] = externals["fmt.Printf"]
	externals["fmt.Fprintln"] = externals["fmt.Printf"]
	externals["fmt.Fprint"] = externals["fmt.Printf"]
	externals["fmt.Errorf"] = func(p *Path, fr *Frame, fn *ssa.Function, a []Value) Value {
		return p.makeFmtError(fr, a)
	}

	// ---- bytes / strings helpers that use assembly ----
	externals["bytes.Equal"] = func(p *Path, fr *Frame, fn *ssa.Function, a []Value) Value {
		return p.strEq(p.bytesToStr(a[0].(BSlice)), p.bytesToStr(a[1].(BSlice)))
	}
	externals["internal/bytealg.Equal"] = externals["bytes.Equal"]
	externals["crypto/subtle.ConstantTimeCompare"] = func(p *Path, fr *Frame, fn *ssa.Function, a []Value) Value {
		eq := p.strEq(p.bytesToStr(a[0].(BSlice)), p.bytesToStr(a[1].(BSlice)))
		return p.tt.Ite(eq, p.tt.U64(1), p.tt.U64(0))
	}
	externals["bytes.IndexByte"] = func(p *Path, fr *Frame, fn *ssa.Function, a []Value) Value {
		return p.indexByte(fr, p.bytesToStr(a[0].(BSlice)), a[1].(*Term))
	}
	externals["internal/bytealg.IndexByte"] = externals["bytes.IndexByte"]
	externals["strings.IndexByte"] = func(p *Path, fr *Frame, fn *ssa.Function, a []Value) Value {
		return p.indexByte(fr, a[0].(Str), a[1].(*Term))
	}
	externals["internal/bytealg.IndexByteString"] = externals["strings.IndexByte"]
	externals["internal/stringslite.IndexByte"] = externals["strings.IndexByte"]
	externals["internal/bytealg.CountString"] = func(p *Path, fr *Frame, fn *ssa.Function, a []Value) Value {
		s := a[0].(Str)
		c := a[1].(*Term)
		n := p.concLen(p.strLen(s), "CountString")
		cnt := p.tt.U64(0)
		for i := 0; i < n; i++ {
			cnt = p.tt.Bin(OAdd, cnt, p.tt.Ite(p.tt.Eq(p.strByte(s, p.tt.U64(uint64(i))), c), p.tt.U64(1), p.tt.U64(0)))
		}
		return cnt
	}
	externals["internal/bytealg.MakeNoZero"] = func(p *Path, fr *Frame, fn *ssa.Function, a []Value) Value {
		n := a[0].(*Term)
		return BSlice{arr: p.newArr(BV8, n), off: p.tt.U64(0), n: n, cap: n}
	}
	externals["unsafe.String"] = func(p *Path, fr *Frame, fn *ssa.Function, a []Value) Value {
		ptr := a[0].(Ptr)
		n := p.tt.Sext(a[1].(*Term), 64)
		if ptr.arr == nil {
			return Str{}
		}
		freeze(ptr.arr.head)
		return p.mkStr(ptr.arr.head, ptr.idx, n)
	}
	externals["unsafe.SliceData"] = func(p *Path, fr *Frame, fn *ssa.Function, a []Value) Value {
		b := a[0].(BSlice)
		if b.arr == nil {
			return Ptr{}
		}
		return Ptr{arr: b.arr, idx: b.off}
	}
	externals["unsafe.StringData"] = func(p *Path, fr *Frame, fn *ssa.Function, a []Value) Value {
		s := a[0].(Str)
		node, off, n := p.strNode(s)
		return Ptr{arr: &Arr{elem: BV8, n: p.tt.Bin(OAdd, off, n), head: node}, idx: off}
	}
	externals["unsafe.Slice"] = func(p *Path, fr *Frame, fn *ssa.Function, a []Value) Value {
		ptr := a[0].(Ptr)
		n := p.tt.Sext(a[1].(*Term), 64)
		if ptr.arr == nil {
			return BSlice{}
		}
		return BSlice{arr: ptr.arr, off: ptr.idx, n: n, cap: n}
	}
	externals["strings.(*Builder).copyCheck"] = func(p *Path, fr *Frame, fn *ssa.Function, a []Value) Value { return nil }
	externals["internal/abi.NoEscape"] = func(p *Path, fr *Frame, fn *ssa.Function, a []Value) Value { return a[0] }
	externals["internal/race.Enabled"] = nil
	delete(externals, "internal/race.Enabled")

	// ---- errors (Is/As use reflectlite) ----
	externals["errors.Is"] = func(p *Path, fr *Frame, fn *ssa.Function, a []Value) Value {
		return p.errorsIs(fr, a[0].(Iface), a[1].(Iface), 0)
	}
	externals["errors.As"] = func(p *Path, fr *Frame, fn *ssa.Function, a []Value) Value {
		tgt := a[1].(Iface)
		if tgt.t == nil {
			panic(goPanic{val: Iface{}, site: p.site(fr), msg: "errors: target cannot be nil"})
		}
		pt, ok := tgt.t.Underlying().(*types.Pointer)
		if !ok || tgt.v.(Ptr).IsNil() {
			panic(goPanic{val: Iface{}, site: p.site(fr), msg: "errors: target must be a non-nil pointer"})
		}
		return p.tt.BoolC(p.errorsAs(fr, a[0].(Iface), pt.Elem(), tgt.v.(Ptr), 0))
	}
	// ---- errors ----
	// errors.New, Is, As, Unwrap, Join are interpreted from source (reflectlite usage is limited to As).

	// ---- math/bits: interpreted from source (pure Go fallbacks) ----
	externals["math/bits.Len64"] = func(p *Path, fr *Frame, fn *ssa.Function, a []Value) Value { return p.bitsLen(a[0].(*Term), 64) }
	externals["math/bits.Len32"] = func(p *Path, fr *Frame, fn *ssa.Function, a []Value) Value { return p.bitsLen(a[0].(*Term), 32) }
	externals["math/bits.Len16"] = func(p *Path, fr *Frame, fn *ssa.Function, a []Value) Value { return p.bitsLen(a[0].(*Term), 16) }
	externals["math/bits.Len8"] = func(p *Path, fr *Frame, fn *ssa.Function, a []Value) Value { return p.bitsLen(a[0].(*Term), 8) }
	externals["math/bits.Len"] = func(p *Path, fr *Frame, fn *ssa.Function, a []Value) Value { return p.bitsLen(a[0].(*Term), 64) }
	externals["math/bits.LeadingZeros64"] = func(p *Path, fr *Frame, fn *ssa.Function, a []Value) Value {
		return p.tt.Bin(OSub, p.tt.U64(64), p.bitsLen(a[0].(*Term), 64))
	}
}

func (p *Path) bitsLen(x *Term, w int) *Term {
	tt := p.tt
	r := tt.U64(0)
	for i := 0; i < w; i++ {
		// if x >= 2^i then len >= i+1
		ge := tt.Cmp(OUle, tt.Const(x.S, uint64(1)<<uint(i)), x)
		r = tt.Ite(ge, tt.U64(uint64(i+1)), r)
	}
	return r
}

func (p *Path) indexByte(fr *Frame, s Str, c *Term) Value {
	tt := p.tt
	n := p.concLen(p.strLen(s), "IndexByte")
	res := tt.I64(-1)
	for i := n - 1; i >= 0; i-- {
		res = tt.Ite(tt.Eq(p.strByte(s, tt.U64(uint64(i))), c), tt.I64(int64(i)), res)
	}
	return res
}

func (p *Path) fmtString(v Value) string {
	if s, ok := v.(Str); ok && s.sym == nil {
		return s.c
	}
	return "?"
}

// fmtErrorType is a synthetic error type for fmt.Errorf results.
// It is represented as *fmt.wrapError / *errors.errorString of the real library so errors.Is/As work.
func (p *Path) makeFmtError(fr *Frame, a []Value) Value {
	format := p.fmtString(a[0])
	var wrapped Value
	if strings.Contains(format, "%w") {
		if gs, ok := a[1].(GSlice); ok {
			// find the argument matching %w: count verbs before it
			idx := 0
			for i := 0; i+1 < len(format); i++ {
				if format[i] == '%' {
					if format[i+1] == '%' {
						i++
						continue
					}
					// skip flags/width
					j := i + 1
					for j < len(format) && strings.ContainsRune("+-# 0123456789.", rune(format[j])) {
						j++
					}
					if j < len(format) && format[j] == 'w' {
						if idx < gs.n {
							wrapped = gs.arr.cells[gs.off+idx]
						}
						break
					}
					idx++
					i = j
				}
			}
		}
	}
	fmtPkg := p.eng.prog.ImportedPackage("fmt")
	if wrapped != nil {
		if it, ok := wrapped.(Iface); ok && it.t != nil && fmtPkg != nil {
			wt := fmtPkg.Type("wrapError")
			if wt != nil {
				slot := new(Value)
				*slot = Struct{Str{c: "<fmt.Errorf:" + format + ">"}, it}
				return Iface{t: types.NewPointer(wt.Type()), v: Ptr{slot: slot}}
			}
		}
	}
	errorsPkg := p.eng.prog.ImportedPackage("errors")
	if errorsPkg != nil {
		et := errorsPkg.Type("errorString")
		slot := new(Value)
		*slot = Struct{Str{c: "<fmt.Errorf:" + format + ">"}}
		return Iface{t: types.NewPointer(et.Type()), v: Ptr{slot: slot}}
	}
	p.unsupported("fmt.Errorf without errors package")
	return nil
}

// lookupExternal finds a model for fn (exact name, or generic-instance prefix).
func lookupExternal(name string) (extFn, bool) {
	if f, ok := externals[name]; ok {
		return f, true
	}
	if strings.HasPrefix(name, "slices.overlaps[") {
		return func(p *Path, fr *Frame, fn *ssa.Function, a []Value) Value {
			switch x := a[0].(type) {
			case GSlice:
				y := a[1].(GSlice)
				if x.arr == nil || y.arr == nil || x.arr != y.arr || x.n == 0 || y.n == 0 {
					return p.tt.False()
				}
				return p.tt.BoolC(x.off < y.off+y.n && y.off < x.off+x.n)
			case BSlice:
				y := a[1].(BSlice)
				if x.arr == nil || y.arr == nil || x.arr != y.arr {
					return p.tt.False()
				}
				tt := p.tt
				ov := tt.And(tt.Cmp(OUlt, x.off, tt.Bin(OAdd, y.off, y.n)), tt.Cmp(OUlt, y.off, tt.Bin(OAdd, x.off, x.n)))
				ov = tt.And(ov, tt.And(tt.Not(tt.Eq(x.n, tt.U64(0))), tt.Not(tt.Eq(y.n, tt.U64(0)))))
				return ov
			}
			p.unsupported("slices.overlaps on %T", a[0])
			return nil
		}, true
	}
	if strings.HasPrefix(name, "(*sync/atomic.Pointer[") {
		i := strings.LastIndex(name, ").")
		m := name[i+2:]
		switch m {
		case "Load":
			return func(p *Path, fr *Frame, fn *ssa.Function, a []Value) Value {
				st := (*a[0].(Ptr).slot).(Struct)
				v := st[len(st)-1]
				if pp, ok := v.(Ptr); ok {
					return pp
				}
				return Ptr{}
			}, true
		case "Store":
			return func(p *Path, fr *Frame, fn *ssa.Function, a []Value) Value {
				st := (*a[0].(Ptr).slot).(Struct)
				st[len(st)-1] = a[1]
				return nil
			}, true
		case "Swap":
			return func(p *Path, fr *Frame, fn *ssa.Function, a []Value) Value {
				st := (*a[0].(Ptr).slot).(Struct)
				old := st[len(st)-1]
				st[len(st)-1] = a[1]
				if pp, ok := old.(Ptr); ok {
					return pp
				}
				return Ptr{}
			}, true
		case "CompareAndSwap":
			return func(p *Path, fr *Frame, fn *ssa.Function, a []Value) Value {
				st := (*a[0].(Ptr).slot).(Struct)
				cur, _ := st[len(st)-1].(Ptr)
				old, _ := a[1].(Ptr)
				if cur == old {
					st[len(st)-1] = a[2]
					return p.tt.True()
				}
				return p.tt.False()
			}, true
		}
	}
	return nil, false
}

// ---------- vx_* intrinsics ----------

func (p *Path) strArg(v Value) string {
	s, ok := v.(Str)
	if !ok || s.sym != nil {
		p.unsupported("vx_* name argument must be a constant string")
	}
	return s.c
}

func (p *Path) input(base string, s Sort, kind string) *Term {
	name := p.fresh(base)
	t := p.tt.Var(name, s)
	p.inputs = append(p.inputs, InputRec{Name: name, Kind: kind})
	return t
}

func (p *Path) intrinsic(fr *Frame, fn *ssa.Function, a []Value) (Value, bool) {
	tt := p.tt
	switch fn.Name() {
	case "vx_bool":
		return p.input(p.strArg(a[0]), Bool, "bool"), true
	case "vx_u8":
		return p.input(p.strArg(a[0]), BV8, "u8"), true
	case "vx_u16":
		return p.input(p.strArg(a[0]), BV16, "u16"), true
	case "vx_u32":
		return p.input(p.strArg(a[0]), BV32, "u32"), true
	case "vx_u64":
		return p.input(p.strArg(a[0]), BV64, "u64"), true
	case "vx_i64", "vx_int":
		return p.input(p.strArg(a[0]), BV64, "i64"), true
	case "vx_choice":
		t := p.input(p.strArg(a[0]), BV64, "i64")
		n := a[1].(*Term)
		p.assume(tt.And(tt.Cmp(OSle, tt.U64(0), t), tt.Cmp(OSlt, t, n)))
		return t, true
	case "vx_range": // vx_range(name, lo, hi) int in [lo,hi]
		t := p.input(p.strArg(a[0]), BV64, "i64")
		p.assume(tt.And(tt.Cmp(OSle, a[1].(*Term), t), tt.Cmp(OSle, t, a[2].(*Term))))
		return t, true
	case "vx_bytes": // symbolic length in [0,max], symbolic contents
		base := p.strArg(a[0])
		name := p.fresh(base)
		ln := tt.Var(name+".len", BV64)
		p.inputs = append(p.inputs, InputRec{Name: name, Kind: "bytes"})
		mx := a[1].(*Term)
		p.assume(tt.And(tt.Cmp(OSle, tt.U64(0), ln), tt.Cmp(OSle, ln, mx)))
		arr := &Arr{elem: BV8, n: ln, head: &ANode{kind: aUF, name: name}}
		return BSlice{arr: arr, off: tt.U64(0), n: ln, cap: ln}, true
	case "vx_bytesN": // given length (may be symbolic), symbolic contents
		base := p.strArg(a[0])
		name := p.fresh(base)
		ln := a[1].(*Term)
		p.inputs = append(p.inputs, InputRec{Name: name, Kind: "bytesN"})
		arr := &Arr{elem: BV8, n: ln, head: &ANode{kind: aUF, name: name}}
		return BSlice{arr: arr, off: tt.U64(0), n: ln, cap: ln}, true
	case "vx_byteAt": // vx_byteAt(name, idx): value of the named symbolic byte function at idx
		name := p.strArg(a[0])
		p.noteFn(name)
		return tt.App(name, BV8, a[1].(*Term)), true
	case "vx_window": // vx_window(name, off, n): fresh []byte of length n holding name[off:off+n]
		name := p.strArg(a[0])
		p.noteFn(name)
		off, n := a[1].(*Term), a[2].(*Term)
		p.boundsCheck(fr, tt.And(tt.Cmp(OSle, tt.U64(0), n), tt.Cmp(OSle, n, tt.U64(1<<24))), "vx_window: bad length")
		arr := p.newArr(BV8, n)
		arr.head = &ANode{kind: aCopy, prev: arr.head, dOff: tt.U64(0), cnt: n, src: &ANode{kind: aUF, name: name}, sOff: off}
		return BSlice{arr: arr, off: tt.U64(0), n: n, cap: n}, true
	case "vx_scribble":
		b := a[0].(BSlice)
		if b.arr != nil {
			name := p.fresh("scribble")
			p.inputs = append(p.inputs, InputRec{Name: name, Kind: "scribble"})
			p.arrCopy(b.arr, b.off, &ANode{kind: aUF, name: name}, tt.U64(0), b.n)
		}
		return nil, true
	case "vx_assume":
		p.assume(a[0].(*Term))
		return nil, true
	case "vx_assert":
		p.doAssert(p.strArg(a[0]), a[1].(*Term), p.site(fr.callerOrSelf()))
		return nil, true
	case "vx_known":
		p.knownPred[p.strArg(a[0])] = a[1].(*Term)
		return nil, true
	case "vx_reach":
		if p.pos >= len(p.prefix) {
			p.res.Reached[p.strArg(a[0])]++
		}
		return nil, true
	case "vx_observe":
		p.obs = append(p.obs, Observation{p.strArg(a[0]), a[1]})
		return nil, true
	case "vx_observe_s":
		p.obs = append(p.obs, Observation{p.strArg(a[0]), a[1]})
		return nil, true
	case "vx_and":
		return tt.And(a[0].(*Term), a[1].(*Term)), true
	case "vx_or":
		return tt.Or(a[0].(*Term), a[1].(*Term)), true
	case "vx_not":
		return tt.Not(a[0].(*Term)), true
	case "vx_implies":
		return tt.Or(tt.Not(a[0].(*Term)), a[1].(*Term)), true
	case "vx_ite_u64", "vx_ite_i64", "vx_ite_int":
		return tt.Ite(a[0].(*Term), a[1].(*Term), a[2].(*Term)), true
	case "vx_stop":
		panic(pathEnd{endStop, ""})
	case "vx_param":
		name := p.strArg(a[0])
		v, ok := p.eng.cfg.Params[name]
		if !ok {
			p.unsupported("vx_param(%q): no such parameter in harness directives", name)
		}
		return tt.I64(int64(v)), true
	case "vx_clock_advance": // vx_clock_advance(d): the model clock moves forward by d >= 0 nanoseconds
		d := a[0].(*Term)
		p.boundsCheck(fr, tt.Cmp(OSle, tt.U64(0), d), "vx_clock_advance: negative")
		p.clock = tt.Bin(OAdd, p.clockTerm(), d)
		return nil, true
	case "vx_run_timers": // due time.AfterFunc callbacks run now, synchronously, in creation order
		for _, vt := range append([]*VTimer(nil), p.timers...) {
			if vt.pending && vt.fn != nil && p.branch(tt.Cmp(OSle, vt.deadline, p.clockTerm())) {
				vt.pending = false
				p.callValue(fr, vt.fn, nil, false)
			}
		}
		return nil, true
	case "vx_concretize_rand": // every crypto/rand.Int draw is split into its possible values
		p.concRand = true
		return nil, true
	case "vx_shuffle_real":
		p.shuffleReal = true
		return nil, true
	case "vx_clock_free": // every Now() call returns a fresh, later instant
		p.clockFree = true
		return nil, true
	case "vx_symbolic":
		return tt.True(), true
	case "vx_concrete_u64": // force concretisation of a value (forks over feasible values)
		t := a[0].(*Term)
		return tt.Const(t.S, p.concretize(t, "vx_concrete")), true
	}
	return nil, false
}

func (p *Path) noteFn(name string) {
	for _, in := range p.inputs {
		if in.Name == name && in.Kind == "fn" {
			return
		}
	}
	p.inputs = append(p.inputs, InputRec{Name: name, Kind: "fn"})
}

func (fr *Frame) callerOrSelf() *Frame {
	if fr == nil {
		return nil
	}
	return fr
}

var _ = fmt.Sprint

func (p *Path) methodOf(t types.Type, name string) *ssa.Function {
	p.eng.msMu.Lock()
	defer p.eng.msMu.Unlock()
	ms := p.eng.prog.MethodSets.MethodSet(t)
	for i := 0; i < ms.Len(); i++ {
		if ms.At(i).Obj().Name() == name && ms.At(i).Obj().Exported() {
			return p.eng.prog.MethodValue(ms.At(i))
		}
	}
	return nil
}

func (p *Path) errorsIs(fr *Frame, err, target Iface, depth int) *Term {
	tt := p.tt
	if err.t == nil || target.t == nil {
		return tt.BoolC(err.t == nil && target.t == nil)
	}
	if depth > 20 {
		p.unsupported("errors.Is: chain too deep")
	}
	if types.Comparable(target.t) {
		eq := p.valEq(fr, nil, err, target)
		if p.branch(eq) {
			return tt.True()
		}
	}
	if m := p.methodOf(err.t, "Is"); m != nil && m.Signature.Params().Len() == 1 && m.Signature.Results().Len() == 1 {
		r := p.callFrom(fr, m, []Value{err.v, target}, nil).(*Term)
		if p.branch(r) {
			return tt.True()
		}
	}
	if m := p.methodOf(err.t, "Unwrap"); m != nil && m.Signature.Params().Len() == 0 && m.Signature.Results().Len() == 1 {
		r := p.callFrom(fr, m, []Value{err.v}, nil)
		switch x := r.(type) {
		case Iface:
			if x.t == nil {
				return tt.False()
			}
			return p.errorsIs(fr, x, target, depth+1)
		case GSlice:
			for i := 0; i < x.n; i++ {
				e := x.arr.cells[x.off+i].(Iface)
				if e.t == nil {
					continue
				}
				if p.branch(p.errorsIs(fr, e, target, depth+1)) {
					return tt.True()
				}
			}
		}
	}
	return tt.False()
}

func (p *Path) errorsAs(fr *Frame, err Iface, want types.Type, dst Ptr, depth int) bool {
	if err.t == nil {
		return false
	}
	if depth > 20 {
		p.unsupported("errors.As: chain too deep")
	}
	if types.IsInterface(want) {
		if p.eng.implements(err.t, want) {
			p.store(fr, dst, err)
			return true
		}
	} else if types.Identical(err.t, want) {
		p.store(fr, dst, err.v)
		return true
	}
	if m := p.methodOf(err.t, "As"); m != nil && m.Signature.Params().Len() == 1 && m.Signature.Results().Len() == 1 {
		r := p.callFrom(fr, m, []Value{err.v, Iface{t: types.NewPointer(want), v: dst}}, nil).(*Term)
		if p.branch(r) {
			return true
		}
	}
	if m := p.methodOf(err.t, "Unwrap"); m != nil && m.Signature.Params().Len() == 0 && m.Signature.Results().Len() == 1 {
		r := p.callFrom(fr, m, []Value{err.v}, nil)
		switch x := r.(type) {
		case Iface:
			return p.errorsAs(fr, x, want, dst, depth+1)
		case GSlice:
			for i := 0; i < x.n; i++ {
				if p.errorsAs(fr, x.arr.cells[x.off+i].(Iface), want, dst, depth+1) {
					return true
				}
			}
		}
	}
	return false
}
