package main

// Run-time values of the symbolic interpreter.

import (
	"fmt"
	"go/types"

	"golang.org/x/tools/go/ssa"
)

type Value interface{}

// Scalars are *Term.

// Struct and Array (of non-scalar elements) have value semantics: copied on load/store.
type Struct []Value
type Array []Value
type Tuple []Value

// Ptr is a pointer: either to a slot (Go-level cell) or to an element of a scalar array.
type Ptr struct {
	slot *Value
	arr  *Arr
	idx  *Term
}

func (p Ptr) IsNil() bool { return p.slot == nil && p.arr == nil }

// Iface is an interface value; t == nil means nil interface.
type Iface struct {
	t types.Type
	v Value
}

type Closure struct {
	fn  *ssa.Function
	env []Value
}

// BoundMethod etc. are all lowered by go/ssa to closures over synthetic functions.

// Str is a string: concrete when sym == nil.
type Str struct {
	c   string
	sym *SymStr
}

type SymStr struct {
	node *ANode
	off  *Term // BV64
	n    *Term // BV64
}

// BSlice: slice over a scalar array with possibly symbolic bounds.
type BSlice struct {
	arr *Arr // nil => nil slice
	off *Term
	n   *Term
	cap *Term
}

// GSlice: slice over generic (non-scalar) elements with concrete bounds.
type GSlice struct {
	arr *GArr // nil => nil slice
	off int
	n   int
	cap int
}

type GArr struct {
	cells []Value
}

// Arr is a mutable array object of scalar elements with a functional history.
type Arr struct {
	elem Sort
	n    *Term // number of elements, BV64 (may be symbolic)
	head *ANode
}

type ANodeKind uint8

const (
	aZero  ANodeKind = iota // all elements zero
	aUF                     // elements given by uninterpreted function name
	aLayer                  // concrete-index writes
	aStore                  // symbolic-index write
	aCopy                   // bulk copy of n elements from src snapshot
)

type ANode struct {
	kind   ANodeKind
	prev   *ANode
	name   string           // aUF
	m      map[uint64]*Term // aLayer
	frozen bool             // aLayer: no further in-place mutation
	idx    *Term            // aStore
	val    *Term            // aStore
	dOff   *Term            // aCopy
	cnt    *Term            // aCopy
	src    *ANode           // aCopy
	sOff   *Term            // aCopy
	depth  int
}

type MapEntry struct {
	k Value
	v Value
}

type Map struct {
	entries []*MapEntry // insertion ordered; deleted entries removed
	keyT    types.Type
}

type Chan struct {
	buf    []Value
	cap    int
	closed bool
	timer  *VTimer // non-nil if this is a timer channel
}

type VTimer struct {
	ch       *Chan
	active   bool
	deadline *Term // BV64 ns on the model clock
	fn       Value // AfterFunc callback
	pending  bool  // AfterFunc: not yet run and not stopped
}

type RangeIter struct {
	m    *Map
	keys []*MapEntry
	s    Str
	pos  int
}

// funcs: *ssa.Function, *ssa.Builtin, *Closure; nil func is (*Closure)(nil)

func typeKey(t types.Type) string { return t.String() }

func fmtVal(v Value) string {
	switch x := v.(type) {
	case *Term:
		if x.IsConst() {
			if x.S.K == SFP {
				return fmt.Sprint(x.FVal())
			}
			return fmt.Sprint(x.C)
		}
		return fmt.Sprintf("<sym t%d>", x.ID)
	case Str:
		if x.sym == nil {
			return fmt.Sprintf("%q", x.c)
		}
		return "<symstr>"
	case nil:
		return "nil"
	}
	return fmt.Sprintf("%T", v)
}
