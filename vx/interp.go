package main

// SSA interpreter over symbolic values.

import (
	"fmt"
	"runtime/debug"
	"go/constant"
	"go/token"
	"go/types"
	"strings"
	"sync"

	"golang.org/x/tools/go/ssa"
)

type fnInfo struct {
	idx map[ssa.Value]int
	n   int
}

var fnInfos sync.Map

func getFnInfo(fn *ssa.Function) *fnInfo {
	if v, ok := fnInfos.Load(fn); ok {
		return v.(*fnInfo)
	}
	fi := &fnInfo{idx: map[ssa.Value]int{}}
	for _, p := range fn.Params {
		fi.idx[p] = fi.n
		fi.n++
	}
	for _, fv := range fn.FreeVars {
		fi.idx[fv] = fi.n
		fi.n++
	}
	for _, b := range fn.Blocks {
		for _, in := range b.Instrs {
			if v, ok := in.(ssa.Value); ok {
				fi.idx[v] = fi.n
				fi.n++
			}
		}
	}
	fnInfos.Store(fn, fi)
	return fi
}

type deferred struct {
	fn   Value
	args []Value
	site string
}

type Frame struct {
	p         *Path
	fn        *ssa.Function
	fi        *fnInfo
	env       []Value
	block     *ssa.BasicBlock
	prev      *ssa.BasicBlock
	defers    []deferred
	result    Value
	panicking *goPanic
	caller    *Frame
	curInstr  ssa.Instruction
}

func (p *Path) site(fr *Frame) string {
	if fr == nil || fr.curInstr == nil {
		return "?"
	}
	pos := fr.curInstr.Pos()
	if pos == token.NoPos {
		// search backwards for any position in block
		for _, in := range fr.block.Instrs {
			if in.Pos() != token.NoPos {
				pos = in.Pos()
			}
			if in == fr.curInstr {
				break
			}
		}
	}
	ps := p.eng.prog.Fset.Position(pos)
	f := ps.Filename
	if i := strings.LastIndex(f, "/"); i >= 0 {
		// keep last two path elements
		if j := strings.LastIndex(f[:i], "/"); j >= 0 {
			f = f[j+1:]
		}
	}
	return fmt.Sprintf("%s:%d (%s)", f, ps.Line, fr.fn.Name())
}

func (p *Path) rtPanic(fr *Frame, msg string) {
	panic(goPanic{val: Iface{t: types.Universe.Lookup("error").Type(), v: Str{c: "runtime error: " + msg}}, site: p.site(fr), rt: true, msg: "runtime error: " + msg})
}

// call runs fn with args (and free-variable env) and returns its result.
func (p *Path) call(fn *ssa.Function, args []Value, env []Value) Value {
	return p.callFrom(nil, fn, args, env)
}

func (p *Path) callFrom(caller *Frame, fn *ssa.Function, args []Value, env []Value) Value {
	if stub, ok := p.eng.stubs[fn]; ok {
		p.res.Stubs[fn.String()] = true
		fn = stub
	}
	if caller != nil && fn.Name() == "init" && fn.Synthetic != "" && fn.Signature.Recv() == nil && fn.Parent() == nil {
		// dependency initialisers are run lazily, when one of the package's globals is first touched
		return nil
	}
	if strings.HasPrefix(fn.Name(), "vx_") {
		if v, ok := p.intrinsic(caller, fn, args); ok {
			return v
		}
	}
	name := fn.String()
	if ext, ok := lookupExternal(name); ok {
		p.res.Stubs["model:"+name] = true
		return ext(p, caller, fn, args)
	}
	if fn.Blocks == nil {
		if fn.Synthetic != "" && fn.Origin() != nil {
			// generic instantiation without body? should not happen with InstantiateGenerics
		}
		p.unsupported("function without body: %s (called at %s)", name, p.site(caller))
	}
	p.depth++
	if p.depth > 400 {
		p.unsupported("call depth exceeded at %s", name)
	}
	defer func() { p.depth-- }()
	p.res.Funcs[fn] = true
	fi := getFnInfo(fn)
	fr := &Frame{p: p, fn: fn, fi: fi, env: make([]Value, fi.n), caller: caller}
	for i, a := range args {
		fr.env[i] = a
	}
	for i, e := range env {
		fr.env[len(fn.Params)+i] = e
	}
	fr.block = fn.Blocks[0]
	p.runFrame(fr)
	return fr.result
}

// runFrame executes until return; handles panics with defers and recover.
func (p *Path) runFrame(fr *Frame) {
	defer func() {
		r := recover()
		if r == nil {
			return
		}
		gp, ok := r.(goPanic)
		if !ok {
			switch r.(type) {
			case pathEnd, engineBug:
				panic(r)
			}
			st := string(debug.Stack())
			if k := strings.Index(st, "panic("); k >= 0 {
				st = st[k:]
			}
			if len(st) > 1200 {
				st = st[:1200]
			}
			chain := ""
			for f, k := p.curFrame, 0; f != nil && k < 14; f, k = f.caller, k+1 {
				chain += " <- " + f.fn.String()
			}
			panic(engineBug{fmt.Sprintf("%v at %s [%s]", r, p.site(p.curFrame), chain), st})
		}
		fr.panicking = &gp
		// run deferred calls
		p.runDefers(fr)
		if fr.panicking != nil {
			panic(*fr.panicking)
		}
		// recovered: function returns via Recover block if present, else zero results
		if fr.fn.Recover != nil {
			fr.block = fr.fn.Recover
			fr.prev = nil
			p.runFrame(fr)
			return
		}
		fr.result = p.zeroResults(fr.fn)
	}()
	for {
		if p.execBlock(fr) {
			return
		}
	}
}

func (p *Path) zeroResults(fn *ssa.Function) Value {
	res := fn.Signature.Results()
	switch res.Len() {
	case 0:
		return nil
	case 1:
		return p.zero(res.At(0).Type())
	}
	t := make(Tuple, res.Len())
	for i := range t {
		t[i] = p.zero(res.At(i).Type())
	}
	return t
}

func (p *Path) runDefers(fr *Frame) {
	for len(fr.defers) > 0 {
		d := fr.defers[len(fr.defers)-1]
		fr.defers = fr.defers[:len(fr.defers)-1]
		p.callValue(fr, d.fn, d.args, true)
	}
}

func (fr *Frame) get(v ssa.Value) Value {
	switch x := v.(type) {
	case *ssa.Const:
		return fr.p.constVal(x)
	case *ssa.Global:
		return fr.p.globalPtr(x)
	case *ssa.Function:
		return x
	case *ssa.Builtin:
		return x
	case nil:
		return nil
	}
	i, ok := fr.fi.idx[v]
	if !ok {
		panic(fmt.Sprintf("get: no slot for %T %s in %s", v, v.Name(), fr.fn))
	}
	return fr.env[i]
}

func (fr *Frame) set(v ssa.Value, x Value) {
	fr.env[fr.fi.idx[v]] = x
}

// execBlock runs the current block; returns true when the function returned.
func (p *Path) execBlock(fr *Frame) bool {
	b := fr.block
	instrs := b.Instrs
	i := 0
	// phis first, evaluated simultaneously
	if fr.prev != nil {
		var edge int
		for j, pr := range b.Preds {
			if pr == fr.prev {
				edge = j
				break
			}
		}
		var vals []Value
		for ; i < len(instrs); i++ {
			phi, ok := instrs[i].(*ssa.Phi)
			if !ok {
				break
			}
			vals = append(vals, fr.get(phi.Edges[edge]))
		}
		for j, v := range vals {
			fr.set(instrs[j].(*ssa.Phi), v)
		}
	}
	for ; i < len(instrs); i++ {
		in := instrs[i]
		fr.curInstr = in
		p.curFrame = fr
		p.steps++
		if p.steps > p.eng.cfg.MaxSteps {
			panic(pathEnd{endSteps, fmt.Sprintf("step limit %d exceeded in %s", p.eng.cfg.MaxSteps, fr.fn)})
		}
		switch x := in.(type) {
		case *ssa.Jump:
			fr.prev, fr.block = b, b.Succs[0]
			return false
		case *ssa.If:
			c := fr.get(x.Cond).(*Term)
			fr.prev = b
			if c.IsConst() {
				if c.C == 1 {
					fr.block = b.Succs[0]
				} else {
					fr.block = b.Succs[1]
				}
				return false
			}
			if p.tryMerge(fr, x, c) {
				return false
			}
			if p.branch(c) {
				fr.block = b.Succs[0]
			} else {
				fr.block = b.Succs[1]
			}
			return false
		case *ssa.Return:
			switch len(x.Results) {
			case 0:
				fr.result = nil
			case 1:
				fr.result = fr.get(x.Results[0])
			default:
				t := make(Tuple, len(x.Results))
				for k, r := range x.Results {
					t[k] = fr.get(r)
				}
				fr.result = t
			}
			return true
		case *ssa.Panic:
			v := fr.get(x.X)
			panic(goPanic{val: v, site: p.site(fr), msg: p.panicString(v)})
		case *ssa.RunDefers:
			p.runDefers(fr)
		default:
			p.exec(fr, in)
		}
	}
	panic("block without terminator")
}

func (p *Path) panicString(v Value) string {
	if it, ok := v.(Iface); ok {
		switch x := it.v.(type) {
		case Str:
			if x.sym == nil {
				return x.c
			}
			return "<symbolic string>"
		case Ptr, Struct:
			if it.t != nil {
				// try Error() method
				if s, ok := p.tryErrorString(it); ok {
					return s
				}
				return "panic(" + it.t.String() + ")"
			}
		}
		if it.t != nil {
			if s, ok := p.tryErrorString(it); ok {
				return s
			}
			return "panic(" + it.t.String() + ")"
		}
		return "panic(nil)"
	}
	return "panic"
}

func (p *Path) tryErrorString(it Iface) (s string, ok bool) {
	defer func() {
		if r := recover(); r != nil {
			if _, isEnd := r.(pathEnd); isEnd {
				s, ok = "", false
				return
			}
			if _, isGP := r.(goPanic); isGP {
				s, ok = "", false
				return
			}
			panic(r)
		}
	}()
	m := p.eng.prog.LookupMethod(it.t, nil, "Error")
	if m == nil {
		return "", false
	}
	r := p.call(m, []Value{it.v}, nil)
	if st, isS := r.(Str); isS && st.sym == nil {
		return st.c, true
	}
	return "", false
}

// ---------- instruction execution ----------

func (p *Path) exec(fr *Frame, in ssa.Instruction) {
	switch x := in.(type) {
	case *ssa.DebugRef:
	case *ssa.Alloc:
		slot := new(Value)
		*slot = p.zero(x.Type().Underlying().(*types.Pointer).Elem())
		fr.set(x, Ptr{slot: slot})
	case *ssa.UnOp:
		fr.set(x, p.unop(fr, x))
	case *ssa.BinOp:
		fr.set(x, p.binop(fr, x.Op, x.X.Type(), fr.get(x.X), fr.get(x.Y), x.Y.Type()))
	case *ssa.Call:
		fr.set(x, p.doCall(fr, &x.Call))
	case *ssa.Store:
		p.store(fr, fr.get(x.Addr), fr.get(x.Val))
	case *ssa.FieldAddr:
		ptr := fr.get(x.X).(Ptr)
		if ptr.slot == nil {
			p.rtPanic(fr, "invalid memory address or nil pointer dereference")
		}
		st := (*ptr.slot).(Struct)
		fr.set(x, Ptr{slot: &st[x.Field]})
	case *ssa.Field:
		st := fr.get(x.X).(Struct)
		fr.set(x, p.copyVal(st[x.Field]))
	case *ssa.IndexAddr:
		fr.set(x, p.indexAddr(fr, x))
	case *ssa.Index:
		fr.set(x, p.index(fr, x))
	case *ssa.Lookup:
		fr.set(x, p.lookup(fr, x))
	case *ssa.Slice:
		fr.set(x, p.slice(fr, x))
	case *ssa.MakeSlice:
		fr.set(x, p.makeSlice(fr, x))
	case *ssa.MakeMap:
		fr.set(x, &Map{keyT: x.Type().Underlying().(*types.Map).Key()})
	case *ssa.MakeChan:
		n := fr.get(x.Size).(*Term)
		if !n.IsConst() {
			p.unsupported("make(chan) with symbolic size")
		}
		fr.set(x, &Chan{cap: int(n.C)})
	case *ssa.MakeClosure:
		fn := x.Fn.(*ssa.Function)
		env := make([]Value, len(x.Bindings))
		for i, b := range x.Bindings {
			env[i] = fr.get(b)
		}
		fr.set(x, &Closure{fn: fn, env: env})
	case *ssa.MakeInterface:
		fr.set(x, Iface{t: x.X.Type(), v: fr.get(x.X)})
	case *ssa.ChangeInterface:
		fr.set(x, fr.get(x.X))
	case *ssa.ChangeType:
		fr.set(x, fr.get(x.X))
	case *ssa.Convert:
		fr.set(x, p.convert(fr, x.X.Type(), x.Type(), fr.get(x.X)))
	case *ssa.MultiConvert:
		fr.set(x, p.convert(fr, x.X.Type(), x.Type(), fr.get(x.X)))
	case *ssa.SliceToArrayPointer:
		fr.set(x, p.sliceToArrayPtr(fr, x))
	case *ssa.Extract:
		fr.set(x, fr.get(x.Tuple).(Tuple)[x.Index])
	case *ssa.TypeAssert:
		fr.set(x, p.typeAssert(fr, x))
	case *ssa.MapUpdate:
		p.mapUpdate(fr, fr.get(x.Map), fr.get(x.Key), fr.get(x.Value))
	case *ssa.Range:
		fr.set(x, p.rangeIter(fr, fr.get(x.X)))
	case *ssa.Next:
		fr.set(x, p.next(fr, x))
	case *ssa.Defer:
		fnv, args := p.prepareCall(fr, &x.Call)
		fr.defers = append(fr.defers, deferred{fn: fnv, args: args, site: p.site(fr)})
	case *ssa.Go:
		p.unsupported("go statement at %s", p.site(fr))
	case *ssa.Send:
		p.chanSend(fr, fr.get(x.Chan), fr.get(x.X))
	case *ssa.Select:
		fr.set(x, p.selectOp(fr, x))
	default:
		p.unsupported("instruction %T at %s", in, p.site(fr))
	}
}

// ---------- types ----------

func scalarSort(t types.Type) (Sort, bool) {
	switch b := t.Underlying().(type) {
	case *types.Basic:
		switch b.Kind() {
		case types.Bool, types.UntypedBool:
			return Bool, true
		case types.Int8, types.Uint8:
			return BV8, true
		case types.Int16, types.Uint16:
			return BV16, true
		case types.Int32, types.Uint32, types.UntypedRune:
			return BV32, true
		case types.Int, types.Uint, types.Int64, types.Uint64, types.Uintptr, types.UntypedInt:
			return BV64, true
		case types.Float32:
			return FP32, true
		case types.Float64, types.UntypedFloat:
			return FP64, true
		}
	}
	return Sort{}, false
}

func isSigned(t types.Type) bool {
	if b, ok := t.Underlying().(*types.Basic); ok {
		return b.Info()&types.IsUnsigned == 0 && b.Info()&types.IsInteger != 0
	}
	return false
}

func isString(t types.Type) bool {
	b, ok := t.Underlying().(*types.Basic)
	return ok && b.Info()&types.IsString != 0
}

func (p *Path) zeroScalar(s Sort) *Term {
	if s.K == SFP {
		return p.tt.FConst(s, 0)
	}
	return p.tt.Const(s, 0)
}

func (p *Path) zero(t types.Type) Value {
	switch u := t.Underlying().(type) {
	case *types.Basic:
		if s, ok := scalarSort(t); ok {
			return p.zeroScalar(s)
		}
		if u.Info()&types.IsString != 0 {
			return Str{}
		}
		if u.Kind() == types.UnsafePointer {
			return Ptr{}
		}
		if u.Kind() == types.UntypedNil {
			return nil
		}
		p.unsupported("zero of basic type %s", t)
	case *types.Pointer:
		return Ptr{}
	case *types.Struct:
		st := make(Struct, u.NumFields())
		for i := range st {
			st[i] = p.zero(u.Field(i).Type())
		}
		return st
	case *types.Array:
		if s, ok := scalarSort(u.Elem()); ok {
			return &Arr{elem: s, n: p.tt.U64(uint64(u.Len())), head: &ANode{kind: aZero}}
		}
		a := make(Array, u.Len())
		for i := range a {
			a[i] = p.zero(u.Elem())
		}
		return a
	case *types.Slice:
		if _, ok := scalarSort(u.Elem()); ok {
			return BSlice{}
		}
		return GSlice{}
	case *types.Map:
		return (*Map)(nil)
	case *types.Chan:
		return (*Chan)(nil)
	case *types.Interface:
		return Iface{}
	case *types.Signature:
		return (*Closure)(nil)
	case *types.Tuple:
		tp := make(Tuple, u.Len())
		for i := range tp {
			tp[i] = p.zero(u.At(i).Type())
		}
		return tp
	}
	p.unsupported("zero of type %s", t)
	return nil
}

func (p *Path) constVal(c *ssa.Const) Value {
	t := c.Type()
	if c.Value == nil {
		return p.zero(t)
	}
	if tp, ok := t.Underlying().(*types.TypeParam); ok {
		_ = tp
		p.unsupported("const of type parameter type")
	}
	if s, ok := scalarSort(t); ok {
		switch s.K {
		case SBool:
			return p.tt.BoolC(constant.BoolVal(c.Value))
		case SBV:
			if isSigned(t) {
				return p.tt.Const(s, uint64(c.Int64()))
			}
			return p.tt.Const(s, c.Uint64())
		case SFP:
			return p.tt.FConst(s, c.Float64())
		}
	}
	if isString(t) {
		if c.Value.Kind() == constant.String {
			return Str{c: constant.StringVal(c.Value)}
		}
	}
	p.unsupported("constant %s of type %s", c, t)
	return nil
}

// copyVal deep-copies value-semantics aggregates.
func (p *Path) copyVal(v Value) Value {
	switch x := v.(type) {
	case Struct:
		n := make(Struct, len(x))
		for i, f := range x {
			n[i] = p.copyVal(f)
		}
		return n
	case Array:
		n := make(Array, len(x))
		for i, f := range x {
			n[i] = p.copyVal(f)
		}
		return n
	case *Arr:
		if x == nil {
			return x
		}
		freeze(x.head)
		return &Arr{elem: x.elem, n: x.n, head: x.head}
	}
	return v
}

func freeze(n *ANode) {
	if n != nil && n.kind == aLayer {
		n.frozen = true
	}
}

// ---------- memory ----------

func (p *Path) load(fr *Frame, addr Value) Value {
	ptr, ok := addr.(Ptr)
	if !ok {
		if _, isPoison := addr.(Poison); isPoison {
			p.unsupported("load through poisoned pointer at %s", p.site(fr))
		}
		panic(fmt.Sprintf("load: not a pointer: %T at %s", addr, p.site(fr)))
	}
	if ptr.slot != nil {
		v := *ptr.slot
		if _, isPoison := v.(Poison); isPoison && p.tolerant == 0 {
			p.unsupported("read of poisoned (uninitialisable) global at %s", p.site(fr))
		}
		return p.copyVal(v)
	}
	if ptr.arr != nil {
		return p.arrRead(ptr.arr.head, ptr.idx, ptr.arr.elem)
	}
	p.rtPanic(fr, "invalid memory address or nil pointer dereference")
	return nil
}

func (p *Path) store(fr *Frame, addr Value, v Value) {
	ptr, ok := addr.(Ptr)
	if !ok {
		panic(fmt.Sprintf("store: not a pointer: %T", addr))
	}
	if ptr.slot != nil {
		if old, isArr := (*ptr.slot).(*Arr); isArr && old != nil {
			// keep identity of the array object (other pointers may alias its elements)
			if nv, ok := v.(*Arr); ok && nv != nil {
				freeze(nv.head)
				old.head = nv.head
				return
			}
		}
		*ptr.slot = p.copyVal(v)
		return
	}
	if ptr.arr != nil {
		p.arrWrite(ptr.arr, ptr.idx, v.(*Term))
		return
	}
	p.rtPanic(fr, "invalid memory address or nil pointer dereference")
}

type Poison struct{ why string }

// ---------- globals and package init ----------

func (p *Path) globalPtr(g *ssa.Global) Value {
	if s, ok := p.globals[g]; ok {
		return Ptr{slot: s}
	}
	p.ensureInit(g.Pkg)
	if s, ok := p.globals[g]; ok {
		return Ptr{slot: s}
	}
	return Ptr{slot: p.globalSlot(g)}
}

func (p *Path) globalSlot(g *ssa.Global) *Value {
	if s, ok := p.globals[g]; ok {
		return s
	}
	s := new(Value)
	*s = p.zero(g.Type().Underlying().(*types.Pointer).Elem())
	p.globals[g] = s
	return s
}

func (p *Path) ensureInit(pkg *ssa.Package) {
	if pkg == nil || p.pkgInit[pkg] != 0 {
		return
	}
	p.pkgInit[pkg] = 1
	// allocate all globals (zeroed)
	for _, m := range pkg.Members {
		if g, ok := m.(*ssa.Global); ok {
			p.globalSlot(g)
		}
	}
	if skipInitPkg(pkg.Pkg.Path()) || p.eng.skipInit[pkg.Pkg.Path()] {
		p.pkgInit[pkg] = 2
		return
	}
	initFn := pkg.Func("init")
	if initFn != nil && initFn.Blocks != nil {
		p.tolerant++
		func() {
			defer func() {
				if r := recover(); r != nil {
					if pe, ok := r.(pathEnd); ok && pe.kind == endUnsupported {
						p.eng.noteInitProblem(pkg.Pkg.Path(), pe.msg)
						return
					}
					if gp, ok := r.(goPanic); ok {
						p.eng.noteInitProblem(pkg.Pkg.Path(), "panic: "+gp.msg)
						return
					}
					panic(r)
				}
			}()
			p.call(initFn, nil, nil)
		}()
		p.tolerant--
	}
	p.pkgInit[pkg] = 2
}

// ---------- calls ----------

func (p *Path) prepareCall(fr *Frame, c *ssa.CallCommon) (Value, []Value) {
	var args []Value
	var fnv Value
	if c.IsInvoke() {
		recv := fr.get(c.Value)
		it, ok := recv.(Iface)
		if !ok {
			if _, isP := recv.(Poison); isP {
				p.unsupported("invoke on poisoned value at %s", p.site(fr))
			}
			panic(fmt.Sprintf("invoke on non-interface %T at %s", recv, p.site(fr)))
		}
		if it.t == nil {
			p.rtPanic(fr, "invalid memory address or nil pointer dereference (nil interface method call "+c.Method.Name()+")")
		}
		m := p.eng.lookupMethod(it.t, c.Method)
		if m == nil {
			p.unsupported("method %s not found on %s", c.Method.Name(), it.t)
		}
		fnv = m
		args = append(args, it.v)
	} else {
		fnv = fr.get(c.Value)
	}
	for _, a := range c.Args {
		args = append(args, fr.get(a))
	}
	return fnv, args
}

func (p *Path) doCall(fr *Frame, c *ssa.CallCommon) Value {
	fnv, args := p.prepareCall(fr, c)
	if p.tolerant > 0 && fr.caller == nil {
		// package initialiser: tolerate unsupported callees
		var res Value
		func() {
			defer func() {
				if r := recover(); r != nil {
					if pe, ok := r.(pathEnd); ok && pe.kind == endUnsupported {
						res = p.poisonFor(c.Signature().Results(), pe.msg)
						return
					}
					panic(r)
				}
			}()
			res = p.callValue(fr, fnv, args, false)
		}()
		return res
	}
	return p.callValue(fr, fnv, args, false)
}

func (p *Path) poisonFor(res *types.Tuple, why string) Value {
	switch res.Len() {
	case 0:
		return nil
	case 1:
		return Poison{why}
	}
	t := make(Tuple, res.Len())
	for i := range t {
		t[i] = Poison{why}
	}
	return t
}

func (p *Path) callValue(fr *Frame, fnv Value, args []Value, isDefer bool) Value {
	switch f := fnv.(type) {
	case *ssa.Function:
		return p.callFrom(fr, f, args, nil)
	case *Closure:
		if f == nil {
			p.rtPanic(fr, "invalid memory address or nil pointer dereference (nil func call)")
		}
		return p.callFrom(fr, f.fn, args, f.env)
	case *ssa.Builtin:
		return p.builtin(fr, f, args, isDefer)
	case Poison:
		p.unsupported("call of poisoned function value: %s", f.why)
	}
	panic(fmt.Sprintf("callValue: %T at %s", fnv, p.site(fr)))
}

func (e *Engine) lookupMethod(t types.Type, m *types.Func) *ssa.Function {
	key := t.String() + "." + m.Id()
	if v, ok := e.methodCache.Load(key); ok {
		return v.(*ssa.Function)
	}
	e.msMu.Lock()
	defer e.msMu.Unlock()
	f := e.prog.LookupMethod(t, m.Pkg(), m.Name())
	if f != nil {
		e.methodCache.Store(key, f)
	}
	return f
}


// tryMerge: if-conversion of side-effect-free diamonds (not yet implemented).
func (p *Path) tryMerge(fr *Frame, x *ssa.If, c *Term) bool { return false }

type engineBug struct {
	msg   string
	stack string
}

func skipInitPkg(path string) bool {
	switch path {
	case "runtime", "unsafe", "reflect", "syscall", "os", "sync", "sync/atomic", "time", "net", "internal/reflectlite",
		"internal/abi", "internal/cpu", "internal/godebug", "internal/godebugs", "internal/poll", "internal/bytealg",
		"internal/syscall/unix", "internal/testlog", "os/signal", "log", "testing", "flag", "encoding/json", "regexp", "regexp/syntax",
		"crypto/rand", "math/rand", "math/rand/v2", "internal/sync", "iter", "unique", "weak", "crypto/internal/fips140", "crypto/internal/fips140deps/godebug",
		"internal/chacha8rand", "vendor/golang.org/x/sys/cpu", "golang.org/x/sys/cpu", "golang.org/x/sys/unix":
		return true
	}
	return strings.HasPrefix(path, "runtime/") || strings.HasPrefix(path, "internal/runtime/") || strings.HasPrefix(path, "crypto/")
}
