package main

// Native replay: the same harness source, compiled by the real toolchain against /repo,
// run with the solver's concrete inputs.

import (
	"bytes"
	"encoding/json"
	"flag"
	"fmt"
	"os"
	"os/exec"
	"path/filepath"
	"strconv"
	"strings"
	"time"
)

type nativeReport struct {
	Total      int
	Agreed     int
	Mismatches []string
	Summary    string
}

type replayFile struct {
	Entry     string                       `json:"entry"`
	Harness   string                       `json:"harness"`
	Pkg       string                       `json:"pkg"`
	Property  string                       `json:"property"`
	Vars      map[string]string            `json:"vars"`
	Fns       map[string]map[string]uint64 `json:"fns"`
	Params    map[string]int               `json:"params"`
	Failed    map[string]string            `json:"failed,omitempty"`
	Sample    int                          `json:"sample,omitempty"`
	MustReach []string                     `json:"must_reach,omitempty"`
	Decisions string                       `json:"decisions,omitempty"`
}

func modelToReplay(m *Model, entry, harness, pkg, prop string, params map[string]int) *replayFile {
	rf := &replayFile{Entry: entry, Harness: harness, Pkg: pkg, Property: prop, Vars: map[string]string{}, Fns: map[string]map[string]uint64{}, Params: params}
	if m != nil {
		for k, v := range m.Vars {
			rf.Vars[k] = strconv.FormatUint(v, 10)
		}
		for k, mm := range m.UFs {
			o := map[string]uint64{}
			for i, v := range mm {
				o[strconv.FormatUint(i, 10)] = v
			}
			rf.Fns[k] = o
		}
	}
	return rf
}

type nativeOutcome struct {
	began   bool
	ended   bool
	obs     []ObsVal
	reached map[string]bool
	failed  []string
	panicMsg string
	assumeFail bool
	raw     string
}

func parseNative(out string) map[string]*nativeOutcome {
	res := map[string]*nativeOutcome{}
	var cur *nativeOutcome
	for _, line := range strings.Split(out, "\n") {
		line = strings.TrimRight(line, "\r")
		switch {
		case strings.HasPrefix(line, "VX-BEGIN "):
			cur = &nativeOutcome{began: true, reached: map[string]bool{}}
			res[strings.TrimPrefix(line, "VX-BEGIN ")] = cur
		case cur == nil:
		case line == "VX-END":
			cur.ended = true
			cur = nil
		case strings.HasPrefix(line, "VX-OBS "):
			rest := strings.TrimPrefix(line, "VX-OBS ")
			i := strings.IndexByte(rest, ' ')
			if i > 0 {
				cur.obs = append(cur.obs, ObsVal{rest[:i], rest[i+1:]})
			}
		case strings.HasPrefix(line, "VX-REACH "):
			cur.reached[strings.TrimPrefix(line, "VX-REACH ")] = true
		case strings.HasPrefix(line, "VX-FAIL "):
			cur.failed = append(cur.failed, strings.TrimPrefix(line, "VX-FAIL "))
		case strings.HasPrefix(line, "VX-PANIC "):
			cur.panicMsg = strings.TrimPrefix(line, "VX-PANIC ")
		case line == "VX-ASSUME-FAIL":
			cur.assumeFail = true
		}
		if cur != nil {
			cur.raw += line + "\n"
		}
	}
	return res
}

func goEnv() []string {
	env := os.Environ()
	path := os.Getenv("PATH")
	env = append(env, "PATH=/opt/veriftools/go1.26.8/bin:"+path, "GOFLAGS=-mod=mod", "GOPROXY=off", "GOSUMDB=off", "GOTOOLCHAIN=local")
	return env
}

// nativeRun compiles the harness natively (overlay) and runs the given replay files.
func nativeRun(repo, pkgPath string, hs []*HarnessFile, prelude string, replayPaths []string, tmp string) (string, error) {
	dir := pkgDir(repo, pkgPath)
	os.WriteFile(filepath.Join(tmp, "prelude.go"), []byte(prelude), 0o644)
	repl := map[string]string{filepath.Join(dir, "zz_vx_prelude.go"): filepath.Join(tmp, "prelude.go")}
	var entries []string
	for _, h := range hs {
		repl[filepath.Join(dir, "zz_vx_"+filepath.Base(h.Path))] = h.Path
		entries = append(entries, h.Entries...)
		for _, o := range h.Overlays {
			repl[filepath.Join(repo, o[0])] = o[1]
		}
	}
	var tb strings.Builder
	fmt.Fprintf(&tb, "package %s\n\nimport (\n\t\"os\"\n\t\"strings\"\n\t\"testing\"\n)\n\nfunc TestVXReplay(t *testing.T) {\n\tentries := map[string]func(){\n", hs[0].PkgName)
	for _, e := range entries {
		fmt.Fprintf(&tb, "\t\t%q: %s,\n", e, e)
	}
	tb.WriteString("\t}\n\tfor _, f := range strings.Split(os.Getenv(\"VX_REPLAY\"), \":\") {\n\t\tif f != \"\" {\n\t\t\tvxRunNative(f, entries)\n\t\t}\n\t}\n}\n")
	os.WriteFile(filepath.Join(tmp, "replay_test.go"), []byte(tb.String()), 0o644)
	repl[filepath.Join(dir, "zz_vx_replay_test.go")] = filepath.Join(tmp, "replay_test.go")
	ovb, _ := json.Marshal(map[string]interface{}{"Replace": repl})
	ovPath := filepath.Join(tmp, "overlay.json")
	os.WriteFile(ovPath, ovb, 0o644)
	cmd := exec.Command("go", "test", "-v", "-vet=off", "-count=1", "-run", "^TestVXReplay$", "-timeout", "300s", "-overlay", ovPath, ".")
	cmd.Dir = dir
	cmd.Env = append(goEnv(), "VX_REPLAY="+strings.Join(replayPaths, ":"))
	var out bytes.Buffer
	cmd.Stdout = &out
	cmd.Stderr = &out
	err := cmd.Run()
	return out.String(), err
}

func runNative(repo, verif, prop, pkgPath string, hs []*HarnessFile, prelude string, reports []*entryReport) error {
	tmp, err := os.MkdirTemp("", "vxnative")
	if err != nil {
		return err
	}
	defer os.RemoveAll(tmp)
	type job struct {
		path string
		rep  *entryReport
		w    *Witness
		v    *Violation
	}
	var jobs []*job
	replayDir := filepath.Join(verif, "replays", prop)
	for _, r := range reports {
		for i, w := range r.RR.Witnesses {
			rf := modelToReplay(w.Model, r.Entry, r.Harness, pkgPath, prop, r.Params)
			pth := filepath.Join(tmp, fmt.Sprintf("w-%s-%d.json", r.Entry, i))
			b, _ := json.Marshal(rf)
			os.WriteFile(pth, b, 0o644)
			jobs = append(jobs, &job{path: pth, rep: r, w: w})
		}
		seen := map[string]int{}
		for _, v := range r.RR.Violations {
			key := v.Label + "|" + v.Known
			if seen[key] >= 2 {
				continue
			}
			seen[key]++
			if v.Model == nil {
				continue
			}
			rf := modelToReplay(v.Model, r.Entry, r.Harness, pkgPath, prop, r.Params)
			rf.Failed = map[string]string{"label": v.Label, "kind": v.Kind, "msg": v.Msg, "site": v.Site}
			if v.Kind == "unreachable" {
				rf.Sample = 4000
			}
			rf.Decisions = v.Decisions
			os.MkdirAll(replayDir, 0o755)
			pth := filepath.Join(replayDir, fmt.Sprintf("%s-%s-%d.json", r.Entry, sanitize(v.Label), seen[key]))
			b, _ := json.MarshalIndent(rf, "", " ")
			os.WriteFile(pth, b, 0o644)
			v.replayPath = pth
			jobs = append(jobs, &job{path: pth, rep: r, v: v})
		}
	}
	if len(jobs) == 0 {
		return nil
	}
	var paths []string
	for _, j := range jobs {
		paths = append(paths, j.path)
	}
	t0 := time.Now()
	out, runErr := nativeRun(repo, pkgPath, hs, prelude, paths, tmp)
	outcomes := parseNative(out)
	// a crash (fatal error, os.Exit) loses later replays: rerun the missing ones individually
	for _, j := range jobs {
		oc := outcomes[j.path]
		if oc == nil || !oc.ended {
			if oc != nil && oc.began {
				// this one crashed the process; keep raw output
				oc.panicMsg = "process crashed: " + lastLines(out, 6)
				oc.ended = true
				continue
			}
			o2, _ := nativeRun(repo, pkgPath, hs, prelude, []string{j.path}, tmp)
			oc2 := parseNative(o2)[j.path]
			if oc2 == nil {
				oc2 = &nativeOutcome{raw: lastLines(o2, 15)}
			} else if !oc2.ended {
				oc2.panicMsg = "process crashed: " + lastLines(o2, 6)
				oc2.ended = true
			}
			outcomes[j.path] = oc2
		}
	}
	_ = runErr
	for _, r := range reports {
		r.Native = &nativeReport{}
	}
	for _, j := range jobs {
		oc := outcomes[j.path]
		nr := j.rep.Native
		if j.w != nil {
			nr.Total++
			if oc == nil || !oc.began {
				nr.Mismatches = append(nr.Mismatches, "witness did not run natively: "+lastLines(out, 10))
				continue
			}
			ok := true
			var why []string
			if len(oc.failed) > 0 || oc.panicMsg != "" || oc.assumeFail {
				ok = false
				why = append(why, fmt.Sprintf("native run of a passing path failed: failed=%v panic=%q assumeFail=%v", oc.failed, oc.panicMsg, oc.assumeFail))
			}
			if len(oc.obs) != len(j.w.Observations) {
				ok = false
				why = append(why, fmt.Sprintf("observation count engine=%d native=%d", len(j.w.Observations), len(oc.obs)))
			} else {
				for i := range oc.obs {
					if oc.obs[i] != j.w.Observations[i] {
						ok = false
						why = append(why, fmt.Sprintf("observation %s: engine=%s native=%s", oc.obs[i].Label, j.w.Observations[i].Val, oc.obs[i].Val))
						break
					}
				}
			}
			for _, l := range j.w.Reached {
				if !oc.reached[l] {
					ok = false
					why = append(why, "reach label "+l+" not reached natively")
				}
			}
			if ok {
				nr.Agreed++
			} else {
				nr.Mismatches = append(nr.Mismatches, fmt.Sprintf("decisions=%s: %s", abbreviate(j.w.Decisions, 60), strings.Join(why, "; ")))
			}
		} else {
			v := j.v
			conf := false
			if oc != nil && oc.began {
				if v.Kind == "unreachable" {
					// statistical confirmation of the solver's "unreachable": thousands of native runs with real
					// randomness never hit the label, while they do hit others
					conf = !oc.reached[v.Label] && len(oc.reached) > 0
				} else if v.Kind == "assert" {
					for _, f := range oc.failed {
						if f == v.Label {
							conf = true
						}
					}
				} else {
					conf = oc.panicMsg != "" && panicSame(oc.panicMsg, v.Msg)
				}
				v.nativeOut = fmt.Sprintf("failed=%v panic=%q assumeFail=%v", oc.failed, oc.panicMsg, oc.assumeFail)
			} else {
				v.nativeOut = "did not run: " + lastLines(out, 10)
			}
			v.confirmed = &conf
		}
	}
	for _, r := range reports {
		r.Native.Summary = fmt.Sprintf("%d/%d witnesses agree (native build+run %.1fs)", r.Native.Agreed, r.Native.Total, time.Since(t0).Seconds())
	}
	return nil
}

func panicSame(native, engine string) bool {
	n := strings.ToLower(native)
	e := strings.ToLower(engine)
	if strings.Contains(n, e) || strings.Contains(e, n) {
		return true
	}
	// runtime errors: compare the class
	for _, k := range []string{"index out of range", "slice bounds out of range", "nil pointer", "divide by zero", "interface conversion", "makeslice", "negative shift", "closed channel", "nil map"} {
		if strings.Contains(n, k) && strings.Contains(e, k) {
			return true
		}
	}
	return false
}

func lastLines(s string, n int) string {
	lines := strings.Split(strings.TrimSpace(s), "\n")
	if len(lines) > n {
		lines = lines[len(lines)-n:]
	}
	return strings.Join(lines, " | ")
}

func sanitize(s string) string {
	var sb strings.Builder
	for _, c := range s {
		if (c >= 'a' && c <= 'z') || (c >= 'A' && c <= 'Z') || (c >= '0' && c <= '9') || c == '-' || c == '_' || c == '.' {
			sb.WriteRune(c)
		} else {
			sb.WriteByte('_')
		}
	}
	return sb.String()
}

// cmdReplay: vx replay -file replays/C08/x.json ; exit 1 iff the native run fails at the recorded label.
func cmdReplay(args []string) int {
	fs := flag.NewFlagSet("replay", flag.ExitOnError)
	file := fs.String("file", "", "replay file")
	repo := fs.String("repo", "/repo", "repository root")
	verif := fs.String("verif", "/verif", "verif root")
	fs.Parse(args)
	b, err := os.ReadFile(*file)
	if err != nil {
		fmt.Fprintln(os.Stderr, err)
		return 2
	}
	var rf replayFile
	if err := json.Unmarshal(b, &rf); err != nil {
		fmt.Fprintln(os.Stderr, err)
		return 2
	}
	h, err := parseHarness(filepath.Join(*verif, "harness", rf.Property, rf.Harness))
	if err != nil {
		fmt.Fprintln(os.Stderr, err)
		return 2
	}
	// all harness files of the same package in that property dir must be compiled together
	files, _ := filepath.Glob(filepath.Join(*verif, "harness", rf.Property, "*.go"))
	var hs []*HarnessFile
	for _, f := range files {
		hh, err := parseHarness(f)
		if err == nil && hh.PkgPath == h.PkgPath {
			hs = append(hs, hh)
		}
	}
	tmpl, _ := os.ReadFile(filepath.Join(*verif, "harness", "prelude.go.tmpl"))
	prelude := strings.Replace(string(tmpl), "PKGNAME", h.PkgName, 1)
	tmp, _ := os.MkdirTemp("", "vxreplay")
	defer os.RemoveAll(tmp)
	abs, _ := filepath.Abs(*file)
	out, _ := nativeRun(*repo, h.PkgPath, hs, prelude, []string{abs}, tmp)
	oc := parseNative(out)[abs]
	if oc == nil {
		fmt.Println(out)
		fmt.Println("replay did not run")
		return 2
	}
	fmt.Print(oc.raw)
	want := rf.Failed["label"]
	for _, f := range oc.failed {
		if f == want {
			fmt.Printf("VIOLATION property=%s replay=%s\n", rf.Property, *file)
			return 1
		}
	}
	if rf.Failed["kind"] == "panic" && oc.panicMsg != "" {
		fmt.Printf("VIOLATION property=%s replay=%s\n", rf.Property, *file)
		return 1
	}
	if !oc.ended {
		fmt.Println("process crashed:", lastLines(out, 8))
		if rf.Failed["kind"] == "panic" {
			fmt.Printf("VIOLATION property=%s replay=%s\n", rf.Property, *file)
			return 1
		}
	}
	fmt.Println("replay passed (no violation at the recorded label)")
	return 0
}
