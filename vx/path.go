package main

// Path: one symbolic execution along a decision prefix, plus the solver glue.

import (
	"fmt"
	"os"
	"runtime/debug"
	"sort"
	"strings"
	"time"

	"golang.org/x/tools/go/ssa"
)

type pathEndKind int

const (
	endNormal pathEndKind = iota
	endStop
	endAssumeFalse
	endViolation
	endUnsupported
	endDepth
	endSteps
	endBlocked
	endAborted
)

type pathEnd struct {
	kind pathEndKind
	msg  string
}

// goPanic is an interpreted Go panic travelling up the interpreter's Go stack.
type goPanic struct {
	val  Value
	site string
	rt   bool // runtime error
	msg  string
}

type Violation struct {
	Label     string
	Kind      string // "assert" | "panic"
	Msg       string
	Site      string
	Model     *Model
	Decisions string
	Known     string // non-empty: matches known-finding region with this label

	confirmed  *bool
	replayPath string
	nativeOut  string
}

type Observation struct {
	Label string
	T     Value // *Term or Str (concrete) ; evaluated lazily under a model
}

type PathResult struct {
	Decisions   string
	End         pathEndKind
	Msg         string
	Violations  []*Violation
	Reached     map[string]int
	Asserts     map[string]int // label -> number of times discharged
	NewPrefixes [][]byte
	Steps       int
	NDecisions  int
	NForks      int
	Witness     *Witness
	Funcs       map[*ssa.Function]bool
	Inconclusive []string
	QFeas, QAssert, QSat, QUnsat, QUnknown, CacheHits, SynHits, OneShot, AltSolver, SolverRestarts int
	Stubs       map[string]bool
}

type Witness struct {
	Model        *Model
	Inputs       []InputRec
	Observations []ObsVal
	Reached      []string
	Decisions    string
}

type InputRec struct {
	Name string
	Kind string // u8,u16,u32,u64,i64,int,bool,bytes,choice
	// for bytes: Len var name, UF name
}

type ObsVal struct {
	Label string
	Val   string
}

type Path struct {
	eng    *Engine
	tt     *TermTable
	sol    *Solver
	prefix []byte
	dec    []byte
	pos    int
	pc     []*Term
	pcSet  map[*Term]bool
	models []*Model
	emitted map[*Term]bool
	declared map[string]bool

	globals  map[*ssa.Global]*Value
	pkgInit  map[*ssa.Package]int // 0 none, 1 running, 2 done
	tolerant int
	names    map[string]int
	inputs   []InputRec
	obs      []Observation
	res      *PathResult
	steps    int
	depth    int
	clock    *Term // model clock (ns), BV64
	timers   []*VTimer
	stubbed  map[string]bool
	mutexes  map[*Value]int
	onceDone map[*Value]bool
	ghost    map[string]Value
	nextObj  int
	knownPred map[string]*Term
	curFrame *Frame
	clockFree bool
	concRand bool
	shuffleReal bool
	timerOf  map[*Value]*VTimer
}

func (e *Engine) newPath(sol *Solver, prefix []byte) *Path {
	p := &Path{eng: e, tt: NewTermTable(), sol: sol, prefix: prefix,
		emitted: map[*Term]bool{}, declared: map[string]bool{}, pcSet: map[*Term]bool{},
		globals: map[*ssa.Global]*Value{}, pkgInit: map[*ssa.Package]int{},
		names: map[string]int{}, mutexes: map[*Value]int{}, onceDone: map[*Value]bool{},
		ghost: map[string]Value{}, knownPred: map[string]*Term{}, timerOf: map[*Value]*VTimer{},
	}
	p.res = &PathResult{Reached: map[string]int{}, Asserts: map[string]int{}, Funcs: map[*ssa.Function]bool{}, Stubs: map[string]bool{}}
	return p
}

func (p *Path) unsupported(format string, a ...interface{}) {
	chain := ""
	for f, k := p.curFrame, 0; f != nil && k < 8; f, k = f.caller, k+1 {
		chain += " <- " + f.fn.Name()
	}
	panic(pathEnd{endUnsupported, fmt.Sprintf(format, a...) + " [" + chain + "]"})
}

func (p *Path) fresh(base string) string {
	k := p.names[base]
	p.names[base] = k + 1
	return fmt.Sprintf("%s#%d", base, k)
}

// ---------- solver glue ----------

func (p *Path) define(t *Term) {
	if t.Op == OConst || p.emitted[t] {
		return
	}
	// iterative post-order
	type item struct {
		t *Term
		i int
	}
	stack := []item{{t, 0}}
	for len(stack) > 0 {
		it := &stack[len(stack)-1]
		if it.t.Op == OConst || p.emitted[it.t] {
			stack = stack[:len(stack)-1]
			continue
		}
		if it.i < len(it.t.Args) {
			a := it.t.Args[it.i]
			it.i++
			if a.Op != OConst && !p.emitted[a] {
				stack = append(stack, item{a, 0})
			}
			continue
		}
		x := it.t
		switch x.Op {
		case OVar:
			if !p.declared[x.Name] {
				p.declared[x.Name] = true
				p.sol.Send(fmt.Sprintf("(declare-const %s %s)", smtName(x.Name), x.S.SMT()))
			}
		case OApp:
			if !p.declared[x.Name] {
				p.declared[x.Name] = true
				p.sol.Send(fmt.Sprintf("(declare-fun %s ((_ BitVec 64)) %s)", smtName(x.Name), x.S.SMT()))
			}
			p.sol.Send(fmt.Sprintf("(define-fun %s () %s %s)", x.Ref(), x.S.SMT(), x.Body()))
		default:
			p.sol.Send(fmt.Sprintf("(define-fun %s () %s %s)", x.Ref(), x.S.SMT(), x.Body()))
		}
		p.emitted[x] = true
		stack = stack[:len(stack)-1]
	}
}

func (p *Path) assertPC(c *Term) {
	if c.IsTrue() {
		return
	}
	p.pc = append(p.pc, c)
	p.notePC(c)
	p.define(c)
	p.sol.Send("(assert " + c.Ref() + ")")
	// filter cached models
	if len(p.models) > 0 {
		keep := p.models[:0]
		for _, m := range p.models {
			if m.Eval(c, map[*Term]uint64{}) == 1 {
				keep = append(keep, m)
			}
		}
		p.models = keep
	}
}

// notePC records c (and its conjuncts) as known facts for syntactic short-cuts.
func (p *Path) notePC(c *Term) {
	if p.pcSet[c] {
		return
	}
	p.pcSet[c] = true
	// leaf == constant: later reads of that leaf fold to the constant
	if c.Op == OEq && c.Args[1].IsConst() && c.Args[0].Op == OApp {
		p.tt.Subst[c.Args[0]] = c.Args[1]
	}
	switch c.Op {
	case OBAnd:
		p.notePC(c.Args[0])
		p.notePC(c.Args[1])
	case OBNot:
		if c.Args[0].Op == OBOr {
			p.notePC(p.tt.Not(c.Args[0].Args[0]))
			p.notePC(p.tt.Not(c.Args[0].Args[1]))
		}
	}
}

// known returns +1 if c is syntactically implied by the path condition, -1 if its negation is, 0 otherwise.
func (p *Path) known(c *Term) int {
	if p.pcSet[c] {
		return 1
	}
	if p.pcSet[p.tt.Not(c)] {
		return -1
	}
	switch c.Op {
	case OBAnd:
		a, b := p.known(c.Args[0]), p.known(c.Args[1])
		if a == 1 && b == 1 {
			return 1
		}
		if a == -1 || b == -1 {
			return -1
		}
	case OBOr:
		a, b := p.known(c.Args[0]), p.known(c.Args[1])
		if a == 1 || b == 1 {
			return 1
		}
		if a == -1 && b == -1 {
			return -1
		}
	case OBNot:
		return -p.known(c.Args[0])
	}
	return 0
}

// query checks satisfiability of PC ∧ c. Returns "sat"/"unsat"/"unknown"; on sat caches a model.
func (p *Path) query(c *Term, assertion bool) string {
	if c.IsFalse() {
		return "unsat"
	}
	// model cache
	for _, m := range p.models {
		if m.Eval(c, map[*Term]uint64{}) == 1 {
			p.res.CacheHits++
			return "sat"
		}
	}
	p.define(c)
	if assertion {
		p.res.QAssert++
	} else {
		p.res.QFeas++
	}
	// stage 1: incremental solver, short cap
	p.sol.SetTimeout(p.eng.cfg.IncTimeoutMs)
	p.sol.Send("(push 1)")
	p.sol.Send("(assert " + c.Ref() + ")")
	r := p.sol.CheckSat()
	var m *Model
	if p.sol.errSeen != "" || p.sol.dead {
		// a solver-side error (e.g. a cancelled command) leaves the incremental state unreliable: start a
		// fresh process, re-assert the path condition, and decide this query one-shot
		p.res.SolverRestarts++
		p.sol.errSeen = ""
		p.resync()
		r = "unknown"
	} else {
		if r == "sat" {
			m = p.getModel(p.sol, func(t *Term) bool { return p.emitted[t] }, func(n string) bool { return p.declared[n] })
		}
		p.sol.Send("(pop 1)")
	}
	if p.sol.dead {
		panic(pathEnd{endAborted, "solver died"})
	}
	// stage 2: one-shot (non-incremental) solving of the whole problem: z3 then uses its
	// bit-blasting tactic, which decides in milliseconds what the incremental core may not
	if r == "unknown" {
		p.res.OneShot++
		to := p.eng.cfg.FeasTimeoutMs
		if assertion {
			to = p.eng.cfg.AssertTimeoutMs
		}
		tq := time.Now()
		r, m = p.oneShot(c, to)
		if d := time.Since(tq); d > 5*time.Second && p.eng.cfg.Progress {
			fmt.Fprintf(os.Stderr, "  slow one-shot query %.1fs -> %s assertion=%v at %s pc=%d dec=%d\n", d.Seconds(), r, assertion, p.site(p.curFrame), len(p.pc), len(p.dec))
			if dir := os.Getenv("VX_SLOWDIR"); dir != "" {
				p.dumpQuery(dir, c)
			}
		}
	}
	switch r {
	case "sat":
		p.res.QSat++
		if m != nil {
			// sanity: the model must satisfy c and the PC under our evaluator
			ok := m.Eval(c, map[*Term]uint64{}) == 1
			if ok {
				memo := map[*Term]uint64{}
				for _, q := range p.pc {
					if m.Eval(q, memo) != 1 {
						ok = false
						break
					}
				}
			}
			if ok {
				p.models = append(p.models, m)
				if len(p.models) > 8 {
					p.models = p.models[1:]
				}
			} else {
				p.eng.noteEvalMismatch()
			}
		}
	case "unsat":
		p.res.QUnsat++
	default:
		p.res.QUnknown++
	}
	return r
}

// resync restarts the incremental solver and re-establishes the current path condition in it.
func (p *Path) resync() {
	if err := p.sol.Restart(); err != nil {
		panic(pathEnd{endAborted, "cannot restart solver: " + err.Error()})
	}
	p.emitted = map[*Term]bool{}
	p.declared = map[string]bool{}
	p.sol.Send("(push 1)")
	for _, c := range p.pc {
		p.define(c)
		p.sol.Send("(assert " + c.Ref() + ")")
	}
}

func (p *Path) checkSolverErr(sol *Solver, r *string) {
	if sol.errSeen != "" {
		p.res.Inconclusive = append(p.res.Inconclusive, "solver error: "+sol.errSeen)
		sol.errSeen = ""
		*r = "unknown"
	}
}

// script renders PC ∧ c as a standalone SMT-LIB2 problem (without check-sat).
func (p *Path) script(c *Term) (string, map[*Term]bool, map[string]bool) {
	var sb strings.Builder
	seen := map[*Term]bool{}
	decl := map[string]bool{}
	var walk func(t *Term)
	walk = func(t *Term) {
		if t.Op == OConst || seen[t] {
			return
		}
		seen[t] = true
		for _, a := range t.Args {
			walk(a)
		}
		switch t.Op {
		case OVar:
			if !decl[t.Name] {
				decl[t.Name] = true
				fmt.Fprintf(&sb, "(declare-const %s %s)\n", smtName(t.Name), t.S.SMT())
			}
		case OApp:
			if !decl[t.Name] {
				decl[t.Name] = true
				fmt.Fprintf(&sb, "(declare-fun %s ((_ BitVec 64)) %s)\n", smtName(t.Name), t.S.SMT())
			}
			fmt.Fprintf(&sb, "(define-fun %s () %s %s)\n", t.Ref(), t.S.SMT(), t.Body())
		default:
			fmt.Fprintf(&sb, "(define-fun %s () %s %s)\n", t.Ref(), t.S.SMT(), t.Body())
		}
	}
	for _, q := range p.pc {
		walk(q)
		fmt.Fprintf(&sb, "(assert %s)\n", q.Ref())
	}
	walk(c)
	fmt.Fprintf(&sb, "(assert %s)\n", c.Ref())
	return sb.String(), seen, decl
}

func (p *Path) oneShot(c *Term, timeoutMs int) (string, *Model) {
	txt, seen, decl := p.script(c)
	// stage A: primary solver, short cap; stage B: the other family (z3 bit-blasting <-> cvc5 solving
	// bit-vectors as integers), which decides multiply/divide-by-constant kernels the first cannot;
	// stage C: primary solver, full timeout
	first := timeoutMs
	if first > 8000 {
		first = 8000
	}
	r, m := p.oneShotOn(p.eng.auxSolver(p.sol, false), txt, seen, decl, first)
	if r != "unknown" || timeoutMs <= first {
		return r, m
	}
	p.res.AltSolver++
	r, m = p.oneShotOn(p.eng.auxSolver(p.sol, true), txt, seen, decl, timeoutMs)
	if r != "unknown" {
		return r, m
	}
	return p.oneShotOn(p.eng.auxSolver(p.sol, false), txt, seen, decl, timeoutMs)
}

func (p *Path) oneShotOn(aux *Solver, txt string, seen map[*Term]bool, decl map[string]bool, timeoutMs int) (string, *Model) {
	if aux == nil {
		return "unknown", nil
	}
	aux.Reset()
	aux.SetTimeout(timeoutMs)
	aux.Send(txt)
	r := aux.CheckSat()
	p.checkSolverErr(aux, &r)
	var m *Model
	if r == "sat" {
		m = p.getModel(aux, func(t *Term) bool { return seen[t] }, func(n string) bool { return decl[n] })
	}
	if aux.dead {
		p.eng.dropAux(p.sol)
	}
	return r, m
}

func (p *Path) getModel(sol *Solver, defined func(*Term) bool, declared func(string) bool) *Model {
	m := &Model{Vars: map[string]uint64{}, UFs: map[string]map[uint64]uint64{}}
	var exprs []string
	var vars []*Term
	for _, v := range p.tt.Vars {
		if declared(v.Name) {
			vars = append(vars, v)
			exprs = append(exprs, v.Ref())
		}
	}
	var apps []*Term
	for _, a := range p.tt.Apps {
		if defined(a) {
			apps = append(apps, a)
			exprs = append(exprs, a.Ref())
			exprs = append(exprs, a.Args[0].Ref())
		}
	}
	if len(exprs) == 0 {
		return m
	}
	vals, err := sol.GetValues(exprs)
	if err != nil {
		p.res.Inconclusive = append(p.res.Inconclusive, "get-value: "+err.Error())
		return nil
	}
	i := 0
	for _, v := range vars {
		m.Vars[v.Name] = vals[i]
		i++
	}
	for _, a := range apps {
		val, idx := vals[i], vals[i+1]
		i += 2
		mm := m.UFs[a.Name]
		if mm == nil {
			mm = map[uint64]uint64{}
			m.UFs[a.Name] = mm
		}
		mm[idx] = val
	}
	return m
}

// anyModel returns a model of the current PC (from cache or by query); nil if none obtainable.
func (p *Path) anyModel() *Model {
	if len(p.models) > 0 {
		return p.models[len(p.models)-1]
	}
	r := p.query(p.tt.True(), false)
	if r == "sat" {
		if len(p.models) > 0 {
			return p.models[len(p.models)-1]
		}
		// true is const: query short-circuits? (IsFalse only) – handled by solver
	}
	return nil
}

// branch decides a symbolic condition, forking when both sides are feasible.
func (p *Path) branch(c *Term) bool {
	if c.IsConst() {
		return c.C == 1
	}
	if p.pos < len(p.prefix) {
		d := p.prefix[p.pos]
		p.pos++
		p.dec = append(p.dec, d)
		switch d {
		case 'T':
			p.assertPC(c)
			return true
		case 'F':
			p.assertPC(p.tt.Not(c))
			return false
		case 't':
			p.notePC(c)
			return true
		default:
			p.notePC(p.tt.Not(c))
			return false
		}
	}
	if len(p.dec) >= p.eng.cfg.MaxDepth {
		panic(pathEnd{endDepth, fmt.Sprintf("decision depth %d exceeded (unwinding bound)", p.eng.cfg.MaxDepth)})
	}
	p.pos++
	var canT, canF bool
	switch p.known(c) {
	case 1:
		canT, canF = true, false
		p.res.SynHits++
	case -1:
		canT, canF = false, true
		p.res.SynHits++
	default:
		rt := p.query(c, false)
		canT = rt != "unsat"
		canF = true
		if canT {
			rf := p.query(p.tt.Not(c), false)
			canF = rf != "unsat"
		}
	}
	switch {
	case canT && canF:
		alt := make([]byte, len(p.dec)+1)
		copy(alt, p.dec)
		alt[len(p.dec)] = 'F'
		p.res.NewPrefixes = append(p.res.NewPrefixes, alt)
		p.res.NForks++
		p.dec = append(p.dec, 'T')
		p.assertPC(c)
		return true
	case canT:
		p.dec = append(p.dec, 't')
		p.notePC(c)
		return true
	default:
		p.dec = append(p.dec, 'f')
		p.notePC(p.tt.Not(c))
		return false
	}
}

// concretize picks a concrete value for t by forking over feasible values (binary decisions).
func (p *Path) concretize(t *Term, what string) uint64 {
	for iter := 0; ; iter++ {
		if t.IsConst() {
			return t.C
		}
		if iter > p.eng.cfg.MaxConcretize {
			panic(pathEnd{endDepth, "too many values while concretising " + what})
		}
		var cand uint64
		if p.pos < len(p.prefix) {
			// during replay we cannot consult models deterministically; candidate order must be
			// reproducible, so candidates are stored in the prefix stream itself.
			cand = p.readCand()
		} else {
			m := p.anyModel()
			if m == nil {
				panic(pathEnd{endAborted, "no model while concretising " + what})
			}
			cand = m.Eval(t, map[*Term]uint64{})
			p.writeCand(cand)
		}
		if p.branch(p.tt.Eq(t, p.tt.Const(t.S, cand))) {
			return cand
		}
	}
}

// candidates are embedded in the decision string as 'C' + 16 hex digits
func (p *Path) writeCand(v uint64) {
	s := fmt.Sprintf("C%016x", v)
	p.dec = append(p.dec, s...)
	p.pos += len(s)
}

func (p *Path) readCand() uint64 {
	if p.prefix[p.pos] != 'C' {
		panic(pathEnd{endAborted, "replay desync (candidate expected)"})
	}
	var v uint64
	fmt.Sscanf(string(p.prefix[p.pos+1:p.pos+17]), "%x", &v)
	p.dec = append(p.dec, p.prefix[p.pos:p.pos+17]...)
	p.pos += 17
	return v
}

// ---------- assertions, assumptions ----------

func (p *Path) assume(c *Term) {
	if c.IsTrue() {
		return
	}
	if c.IsFalse() {
		panic(pathEnd{endAssumeFalse, ""})
	}
	if p.pos < len(p.prefix) {
		// replaying: feasibility was established before
		p.assertPC(c)
		return
	}
	r := p.query(c, false)
	if r == "unsat" {
		panic(pathEnd{endAssumeFalse, ""})
	}
	p.assertPC(c)
}

func (p *Path) violation(kind, label, msg, site string, cond *Term) bool {
	// cond: the negated assertion (what must hold for the violation); nil = unconditional
	var m *Model
	if cond != nil {
		for _, mm := range p.models {
			if mm.Eval(cond, map[*Term]uint64{}) == 1 {
				m = mm
				break
			}
		}
	} else {
		m = p.anyModel()
		if m == nil {
			// feasibility of this path was never positively established (an earlier query was
			// "unknown"): decide it now with the long timeout; an infeasible path is not a violation
			r, mm := p.oneShot(p.tt.True(), p.eng.cfg.AssertTimeoutMs)
			if r == "unsat" {
				return false
			}
			m = mm
		}
	}
	v := &Violation{Label: label, Kind: kind, Msg: msg, Site: site, Model: m, Decisions: string(p.dec)}
	p.res.Violations = append(p.res.Violations, v)
	return true
}

func (p *Path) doAssert(label string, c *Term, site string) {
	if p.pos < len(p.prefix) {
		// Already decided when this prefix was first explored: the assertion held (else path ended).
		return
	}
	if c.IsTrue() {
		p.res.Asserts[label]++
		return
	}
	neg := p.tt.Not(c)
	if kp, ok := p.knownPred[label]; ok {
		// region semantics: outside the known region the assertion must hold
		inReg := p.tt.And(neg, kp)
		if r := p.query(inReg, true); r == "sat" {
			v := &Violation{Label: label, Kind: "assert", Site: site, Decisions: string(p.dec), Known: label}
			for _, mm := range p.models {
				if mm.Eval(inReg, map[*Term]uint64{}) == 1 {
					v.Model = mm
					break
				}
			}
			p.res.Violations = append(p.res.Violations, v)
		}
		neg = p.tt.And(neg, p.tt.Not(kp))
	}
	r := p.query(neg, true)
	switch r {
	case "sat":
		if !p.violation("assert", label, "", site, neg) {
			panic(pathEnd{endAssumeFalse, "infeasible path (late)"})
		}
		panic(pathEnd{endViolation, label})
	case "unsat":
		p.res.Asserts[label]++
	default:
		p.res.Inconclusive = append(p.res.Inconclusive, "assertion "+label+": solver unknown")
	}
}

// ---------- running ----------

func (p *Path) run(entry *ssa.Function) (res *PathResult) {
	res = p.res
	t0 := time.Now()
	_ = t0
	p.sol.Send("(push 1)")
	defer func() {
		if r := recover(); r != nil {
			switch x := r.(type) {
			case pathEnd:
				res.End = x.kind
				res.Msg = x.msg
			case goPanic:
				// uncaught Go panic in interpreted code
				if p.pos < len(p.prefix) {
					res.End = endAborted
					res.Msg = "replay desync: panic during prefix replay: " + x.msg
				} else {
					if p.violation("panic", "panic", x.msg, x.site, nil) {
						res.End = endViolation
						res.Msg = "panic: " + x.msg
					} else {
						res.End = endAssumeFalse
					}
				}
			case engineBug:
				res.End = endAborted
				res.Msg = "ENGINE BUG: " + x.msg + "\n" + x.stack
			default:
				res.End = endAborted
				st := string(debug.Stack())
				if i := strings.Index(st, "panic("); i >= 0 {
					st = st[i:]
				}
				if len(st) > 1500 {
					st = st[:1500]
				}
				res.Msg = fmt.Sprintf("ENGINE BUG: %v at %s\n%s", r, p.site(p.curFrame), st)
			}
		}
		res.Decisions = string(p.dec)
		res.Steps = p.steps
		res.NDecisions = len(p.dec)
		if p.pos < len(p.prefix) && res.End != endAborted {
			res.End = endAborted
			res.Msg = fmt.Sprintf("replay desync: prefix not consumed (%d of %d) end=%d %s", p.pos, len(p.prefix), res.End, res.Msg)
		}
		if res.End == endNormal || res.End == endStop {
			p.makeWitness()
		}
		p.sol.Send("(pop 1)")
	}()
	p.call(entry, nil, nil)
	return
}

func (p *Path) makeWitness() {
	if p.shuffleReal {
		return // math/rand's global source cannot be scripted natively: no per-path witness replay in this mode
	}
	if !p.eng.wantWitness(p.res) {
		return
	}
	m := p.anyModel()
	if m == nil {
		return
	}
	w := &Witness{Model: m, Inputs: p.inputs, Decisions: string(p.dec)}
	memo := map[*Term]uint64{}
	for _, o := range p.obs {
		w.Observations = append(w.Observations, ObsVal{o.Label, p.evalObs(o.T, m, memo)})
	}
	for l := range p.res.Reached {
		w.Reached = append(w.Reached, l)
	}
	sort.Strings(w.Reached)
	p.res.Witness = w
}

func (p *Path) evalObs(v Value, m *Model, memo map[*Term]uint64) string {
	switch x := v.(type) {
	case *Term:
		val := m.Eval(x, memo)
		return fmt.Sprintf("%d", val)
	case Str:
		if x.sym == nil {
			return fmt.Sprintf("%q", x.c)
		}
		n := m.Eval(x.sym.n, memo)
		if n > 1<<16 {
			return "<long>"
		}
		var sb strings.Builder
		for i := uint64(0); i < n; i++ {
			t := p.arrRead(x.sym.node, p.tt.Bin(OAdd, x.sym.off, p.tt.U64(i)), BV8)
			sb.WriteByte(byte(m.Eval(t, memo)))
		}
		return fmt.Sprintf("%q", sb.String())
	}
	return "?"
}

// dumpQuery writes a standalone SMT-LIB2 file for PC ∧ c (debugging aid).
func (p *Path) dumpQuery(dir string, c *Term) {
	txt, _, _ := p.script(c)
	p.eng.mu.Lock()
	p.eng.nDump++
	n := p.eng.nDump
	p.eng.mu.Unlock()
	os.WriteFile(fmt.Sprintf("%s/slow%d.smt2", dir, n), []byte(txt+"(check-sat)\n"), 0o644)
}
