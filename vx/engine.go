package main

import (
	"crypto/sha256"
	"fmt"
	"go/types"
	"os"
	"path/filepath"
	"regexp"
	"sort"
	"strconv"
	"strings"
	"sync"
	"time"

	"golang.org/x/tools/go/packages"
	"golang.org/x/tools/go/ssa"
	"golang.org/x/tools/go/ssa/ssautil"
)

type Config struct {
	Workers         int
	MaxDepth        int
	MaxSteps        int
	MaxPaths        int
	MaxConcretize   int
	FeasTimeoutMs   int
	IncTimeoutMs    int
	AssertTimeoutMs int
	WallBudget      time.Duration
	Params          map[string]int
	Solver          SolverKind
	Witnesses       int
	StopOnViolation bool
	Progress        bool
}

type Engine struct {
	prog *ssa.Program
	pkg  *ssa.Package
	cfg  Config

	stubs    map[*ssa.Function]*ssa.Function
	skipInit map[string]bool

	methodCache sync.Map
	implCache   sync.Map
	msMu        sync.Mutex

	mu           sync.Mutex
	initProblems map[string]string
	evalMismatch int
	witnessed    map[string]bool
	nWitness     int
	nDump        int
	aux          map[auxKey]*Solver
}

func (e *Engine) noteInitProblem(pkg, msg string) {
	e.mu.Lock()
	defer e.mu.Unlock()
	if e.initProblems == nil {
		e.initProblems = map[string]string{}
	}
	if _, ok := e.initProblems[pkg]; !ok {
		e.initProblems[pkg] = msg
	}
}

func (e *Engine) noteEvalMismatch() {
	e.mu.Lock()
	e.evalMismatch++
	e.mu.Unlock()
}

func (e *Engine) wantWitness(r *PathResult) bool {
	e.mu.Lock()
	defer e.mu.Unlock()
	want := false
	for l := range r.Reached {
		if !e.witnessed[l] {
			e.witnessed[l] = true
			want = true
		}
	}
	if !want && e.nWitness < e.cfg.Witnesses/2 {
		want = true
	}
	if want {
		if e.nWitness >= e.cfg.Witnesses {
			return false
		}
		e.nWitness++
	}
	return want
}

// ---------- harness files ----------

type HarnessFile struct {
	Path    string
	Src     []byte
	PkgPath string // import path of the target package
	PkgName string
	Entries []string
	Params  map[string]map[string]int // tier -> name -> value ("all" tier applies to both)
	Stubs   [][2]string
	Solver  string
	ExpectBlock map[string]bool
	ThoroughOnly map[string]bool
	Overlays [][2]string
	MustReach map[string][]string
}

var dirRe = regexp.MustCompile(`(?m)^//vx:(\w[\w-]*)\s+(.*)$`)
var pkgRe = regexp.MustCompile(`(?m)^package\s+(\w+)`)

func parseHarness(path string) (*HarnessFile, error) {
	src, err := os.ReadFile(path)
	if err != nil {
		return nil, err
	}
	h := &HarnessFile{Path: path, Src: src, Params: map[string]map[string]int{}, ExpectBlock: map[string]bool{}, ThoroughOnly: map[string]bool{}, MustReach: map[string][]string{}}
	if m := pkgRe.FindSubmatch(src); m != nil {
		h.PkgName = string(m[1])
	}
	for _, m := range dirRe.FindAllSubmatch(src, -1) {
		key, val := string(m[1]), strings.TrimSpace(string(m[2]))
		switch key {
		case "pkg":
			h.PkgPath = val
		case "entry":
			h.Entries = append(h.Entries, strings.Fields(val)...)
		case "entry-thorough":
			for _, e := range strings.Fields(val) {
				h.Entries = append(h.Entries, e)
				h.ThoroughOnly[e] = true
			}
		case "param":
			f := strings.Fields(val)
			tier := f[0]
			if h.Params[tier] == nil {
				h.Params[tier] = map[string]int{}
			}
			for _, kv := range f[1:] {
				i := strings.IndexByte(kv, '=')
				if i < 0 {
					return nil, fmt.Errorf("%s: bad param %q", path, kv)
				}
				n, err := strconv.Atoi(kv[i+1:])
				if err != nil {
					return nil, fmt.Errorf("%s: bad param %q", path, kv)
				}
				h.Params[tier][kv[:i]] = n
			}
		case "stub":
			parts := strings.Split(val, "=")
			if len(parts) != 2 {
				return nil, fmt.Errorf("%s: bad stub %q", path, val)
			}
			h.Stubs = append(h.Stubs, [2]string{strings.TrimSpace(parts[0]), strings.TrimSpace(parts[1])})
		case "overlay": // //vx:overlay <path relative to /repo> <file relative to the harness directory>
			f := strings.Fields(val)
			if len(f) != 2 {
				return nil, fmt.Errorf("%s: bad overlay %q", path, val)
			}
			h.Overlays = append(h.Overlays, [2]string{f[0], filepath.Join(filepath.Dir(path), f[1])})
		case "must-reach": // //vx:must-reach <entry> label...  : an unreachable label is a VIOLATION (reachability property)
			f := strings.Fields(val)
			if len(f) > 1 {
				h.MustReach[f[0]] = append(h.MustReach[f[0]], f[1:]...)
			}
		case "solver":
			h.Solver = val
		case "expect-block":
			h.ExpectBlock[val] = true
		}
	}
	if h.PkgPath == "" {
		return nil, fmt.Errorf("%s: missing //vx:pkg", path)
	}
	return h, nil
}

const modulePath = "github.com/refraction-networking/uquic"

func pkgDir(repo, pkgPath string) string {
	rel := strings.TrimPrefix(pkgPath, modulePath)
	return filepath.Join(repo, rel)
}

// load builds SSA for the target package with harness files overlaid.
func loadProgram(repo string, pkgPath string, files map[string][]byte, extra map[string][]byte) (*ssa.Program, *ssa.Package, error) {
	overlay := map[string][]byte{}
	for rel, src := range extra {
		overlay[filepath.Join(repo, rel)] = src
	}
	for name, src := range files {
		overlay[filepath.Join(pkgDir(repo, pkgPath), name)] = src
	}
	cfg := &packages.Config{Mode: packages.LoadAllSyntax, Dir: repo, Overlay: overlay,
		Env: goEnv()}
	pkgs, err := packages.Load(cfg, pkgPath)
	if err != nil {
		return nil, nil, err
	}
	var errs []string
	packages.Visit(pkgs, nil, func(p *packages.Package) {
		for _, e := range p.Errors {
			errs = append(errs, e.Error())
		}
	})
	if len(errs) > 0 {
		if len(errs) > 20 {
			errs = errs[:20]
		}
		return nil, nil, fmt.Errorf("load errors:\n%s", strings.Join(errs, "\n"))
	}
	prog, spkgs := ssautil.AllPackages(pkgs, ssa.InstantiateGenerics)
	prog.Build()
	if len(spkgs) == 0 || spkgs[0] == nil {
		return nil, nil, fmt.Errorf("no SSA package for %s", pkgPath)
	}
	return prog, spkgs[0], nil
}

func (e *Engine) resolveFunc(name string) *ssa.Function {
	// forms: pkgpath.Func   or   pkgpath.Type.Method
	for _, pkg := range e.prog.AllPackages() {
		pp := pkg.Pkg.Path()
		if !strings.HasPrefix(name, pp+".") {
			continue
		}
		rest := name[len(pp)+1:]
		if strings.Contains(rest, "/") {
			continue
		}
		parts := strings.Split(rest, ".")
		switch len(parts) {
		case 1:
			if f := pkg.Func(parts[0]); f != nil {
				return f
			}
		case 2:
			if t := pkg.Type(parts[0]); t != nil {
				for _, recv := range []types.Type{t.Type(), types.NewPointer(t.Type())} {
					ms := e.prog.MethodSets.MethodSet(recv)
					for i := 0; i < ms.Len(); i++ {
						if ms.At(i).Obj().Name() == parts[1] {
							if f := e.prog.MethodValue(ms.At(i)); f != nil {
								return f
							}
						}
					}
				}
			}
		}
	}
	return nil
}

// ---------- exploration ----------

type RunResult struct {
	Entry        string
	Paths        int
	Completed    int // normal/stop ends
	AssumeEnds   int
	Violations   []*Violation
	Reached      map[string]int
	Asserts      map[string]int
	Inconclusive []string
	Forks        int
	Decisions    int
	Steps        int64
	QFeas, QAssert, QSat, QUnsat, QUnknown, CacheHits, SynHits, OneShot, AltSolver, SolverRestarts int
	SolverTime   time.Duration
	Wall         time.Duration
	Funcs        map[*ssa.Function]bool
	Stubs        map[string]bool
	Witnesses    []*Witness
	Samples      []string
	NontrivialPaths int
	MaxDepthSeen int
	Blocked      int
}

func (e *Engine) explore(entry *ssa.Function, expectBlock bool) *RunResult {
	rr := &RunResult{Entry: entry.Name(), Reached: map[string]int{}, Asserts: map[string]int{}, Funcs: map[*ssa.Function]bool{}, Stubs: map[string]bool{}}
	e.witnessed = map[string]bool{}
	e.nWitness = 0
	t0 := time.Now()
	var mu sync.Mutex
	cond := sync.NewCond(&mu)
	queue := [][]byte{nil}
	inflight := 0
	stop := false
	incon := map[string]bool{}
	addIncon := func(s string) {
		if !incon[s] {
			incon[s] = true
			rr.Inconclusive = append(rr.Inconclusive, s)
		}
	}
	var wg sync.WaitGroup
	var solverTime time.Duration
	doneCh := make(chan struct{})
	if e.cfg.Progress {
		go func() {
			tk := time.NewTicker(10 * time.Second)
			defer tk.Stop()
			for {
				select {
				case <-doneCh:
					return
				case <-tk.C:
					mu.Lock()
					fmt.Fprintf(os.Stderr, "  [%s %.0fs] paths=%d completed=%d queue=%d inflight=%d viol=%d incon=%d\n", rr.Entry, time.Since(t0).Seconds(), rr.Paths, rr.Completed, len(queue), inflight, len(rr.Violations), len(rr.Inconclusive))
					mu.Unlock()
				}
			}
		}()
	}
	for w := 0; w < e.cfg.Workers; w++ {
		wg.Add(1)
		go func(w int) {
			defer wg.Done()
			sol, err := NewSolver(e.cfg.Solver, e.cfg.FeasTimeoutMs)
			if err != nil {
				mu.Lock()
				addIncon("cannot start solver: " + err.Error())
				stop = true
				cond.Broadcast()
				mu.Unlock()
				return
			}
			if d := os.Getenv("VX_SMTLOG"); d != "" {
				f, _ := os.Create(fmt.Sprintf("%s/w%d.smt2", d, w))
				sol.log = f
				defer f.Close()
			}
			defer func() {
				at := e.auxTime(sol)
				mu.Lock()
				solverTime += at
				mu.Unlock()
				e.dropAux(sol)
				mu.Lock()
				solverTime += sol.Time
				mu.Unlock()
				sol.Close()
			}()
			npaths := 0
			for {
				mu.Lock()
				for len(queue) == 0 && inflight > 0 && !stop {
					cond.Wait()
				}
				if stop || (len(queue) == 0 && inflight == 0) {
					cond.Broadcast()
					mu.Unlock()
					return
				}
				prefix := queue[len(queue)-1]
				queue = queue[:len(queue)-1]
				inflight++
				mu.Unlock()

				if sol.dead {
					sol.Close()
					sol, err = NewSolver(e.cfg.Solver, e.cfg.FeasTimeoutMs)
					if err != nil {
						mu.Lock()
						addIncon("cannot restart solver")
						stop = true
						inflight--
						cond.Broadcast()
						mu.Unlock()
						return
					}
				}
				npaths++
				if npaths%500 == 0 {
					sol.Reset()
				}
				p := e.newPath(sol, prefix)
				res := p.run(entry)

				mu.Lock()
				inflight--
				rr.Paths++
				rr.Forks += res.NForks
				rr.Decisions += res.NDecisions
				rr.Steps += int64(res.Steps)
				rr.QFeas += res.QFeas
				rr.QAssert += res.QAssert
				rr.QSat += res.QSat
				rr.QUnsat += res.QUnsat
				rr.QUnknown += res.QUnknown
				rr.CacheHits += res.CacheHits
				rr.SynHits += res.SynHits
				rr.OneShot += res.OneShot
				rr.AltSolver += res.AltSolver
				rr.SolverRestarts += res.SolverRestarts
				if res.NDecisions > rr.MaxDepthSeen {
					rr.MaxDepthSeen = res.NDecisions
				}
				for f := range res.Funcs {
					rr.Funcs[f] = true
				}
				for s := range res.Stubs {
					rr.Stubs[s] = true
				}
				for l, n := range res.Reached {
					rr.Reached[l] += n
				}
				for l, n := range res.Asserts {
					rr.Asserts[l] += n
				}
				if len(res.Reached) > 0 {
					rr.NontrivialPaths++
				}
				for _, s := range res.Inconclusive {
					addIncon(s)
				}
				switch res.End {
				case endNormal, endStop:
					rr.Completed++
					if len(rr.Samples) < 5 {
						rr.Samples = append(rr.Samples, fmt.Sprintf("decisions=%s pc=%d steps=%d", abbreviate(res.Decisions, 120), len(p.pc), res.Steps))
					}
				case endAssumeFalse:
					rr.AssumeEnds++
				case endViolation:
				case endBlocked:
					rr.Blocked++
					if !expectBlock {
						addIncon("BLOCKED: " + res.Msg)
					}
				case endUnsupported:
					addIncon("UNSUPPORTED: " + res.Msg)
				case endDepth:
					addIncon("UNWIND: " + res.Msg)
				case endSteps:
					addIncon("STEPS: " + res.Msg)
				case endAborted:
					addIncon("ABORTED: " + res.Msg)
				}
				if res.Witness != nil {
					rr.Witnesses = append(rr.Witnesses, res.Witness)
				}
				for _, v := range res.Violations {
					rr.Violations = append(rr.Violations, v)
					if v.Known == "" && e.cfg.StopOnViolation {
						stop = true
					}
				}
				queue = append(queue, res.NewPrefixes...)
				if rr.Paths >= e.cfg.MaxPaths {
					addIncon(fmt.Sprintf("path budget %d exhausted", e.cfg.MaxPaths))
					stop = true
				}
				if e.cfg.WallBudget > 0 && time.Since(t0) > e.cfg.WallBudget {
					addIncon(fmt.Sprintf("wall budget %s exhausted (bound not completed)", e.cfg.WallBudget))
					stop = true
				}
				cond.Broadcast()
				mu.Unlock()
			}
		}(w)
	}
	wg.Wait()
	close(doneCh)
	rr.SolverTime = solverTime
	rr.Wall = time.Since(t0)
	if e.evalMismatch > 0 {
		rr.Inconclusive = append(rr.Inconclusive, fmt.Sprintf("evaluator/solver model mismatch x%d", e.evalMismatch))
	}
	return rr
}

func abbreviate(s string, n int) string {
	if len(s) <= n {
		return s
	}
	return s[:n] + "…"
}

func fileHash(path string) string {
	b, err := os.ReadFile(path)
	if err != nil {
		return "?"
	}
	h := sha256.Sum256(b)
	return fmt.Sprintf("%x", h[:6])
}

func (e *Engine) funcList(fs map[*ssa.Function]bool) []string {
	seen := map[string]bool{}
	var out []string
	for f := range fs {
		name := f.String()
		if f.Pkg == nil && f.Origin() == nil && f.Parent() == nil && f.Synthetic != "" {
			continue
		}
		pos := e.prog.Fset.Position(f.Pos())
		file := pos.Filename
		if !strings.Contains(file, "/repo/") {
			continue
		}
		if strings.Contains(file, "zz_vx_") {
			continue
		}
		s := fmt.Sprintf("%s [%s@%s]", name, strings.TrimPrefix(file, "/repo/"), fileHash(file))
		if !seen[s] {
			seen[s] = true
			out = append(out, s)
		}
	}
	sort.Strings(out)
	return out
}

type auxKey struct {
	main *Solver
	alt  bool
}

func (e *Engine) altKind() SolverKind {
	if e.cfg.Solver == SolverCVC5Int || e.cfg.Solver == SolverCVC5 {
		return SolverZ3New
	}
	return SolverCVC5Int
}

func (e *Engine) auxSolver(main *Solver, alt bool) *Solver {
	e.mu.Lock()
	defer e.mu.Unlock()
	if e.aux == nil {
		e.aux = map[auxKey]*Solver{}
	}
	k := auxKey{main, alt}
	if a, ok := e.aux[k]; ok && !a.dead {
		return a
	}
	kind := e.cfg.Solver
	to := e.cfg.FeasTimeoutMs
	if alt {
		kind = e.altKind()
		to = e.cfg.AssertTimeoutMs
	}
	a, err := NewSolver(kind, to)
	if err != nil {
		return nil
	}
	e.aux[k] = a
	return a
}

func (e *Engine) auxTime(main *Solver) time.Duration {
	e.mu.Lock()
	defer e.mu.Unlock()
	var d time.Duration
	for k, a := range e.aux {
		if k.main == main {
			d += a.Time
		}
	}
	return d
}

func (e *Engine) dropAux(main *Solver) {
	e.mu.Lock()
	var cl []*Solver
	for k, a := range e.aux {
		if k.main == main {
			cl = append(cl, a)
			delete(e.aux, k)
		}
	}
	e.mu.Unlock()
	for _, a := range cl {
		a.Close()
	}
}
