package main

import (
	"fmt"
	"go/types"
	"sort"

	"golang.org/x/tools/go/ssa"
)

// ---------- scalar arrays with functional history ----------

type readKey struct {
	n  *ANode
	id int
}

func (p *Path) arrRead(n *ANode, idx *Term, elem Sort) *Term {
	return p.arrRead1(n, idx, elem, map[readKey]*Term{})
}

func (p *Path) arrRead1(n *ANode, idx *Term, elem Sort, memo map[readKey]*Term) *Term {
	tt := p.tt
	for {
		switch n.kind {
		case aZero:
			return p.zeroScalar(elem)
		case aUF:
			if elem.K != SBV {
				p.unsupported("uninterpreted array of non-bitvector elements")
			}
			return tt.App(n.name, elem, idx)
		case aLayer:
			if idx.IsConst() {
				if v, ok := n.m[idx.C]; ok {
					return v
				}
				n = n.prev
				continue
			}
			k := readKey{n, idx.ID}
			if r, ok := memo[k]; ok {
				return r
			}
			res := p.arrRead1(n.prev, idx, elem, memo)
			keys := make([]uint64, 0, len(n.m))
			for kk := range n.m {
				keys = append(keys, kk)
			}
			sort.Slice(keys, func(i, j int) bool { return keys[i] < keys[j] })
			for _, kk := range keys {
				res = tt.Ite(tt.Eq(idx, tt.U64(kk)), n.m[kk], res)
			}
			memo[k] = res
			return res
		case aStore:
			eq := tt.Eq(idx, n.idx)
			if eq.IsTrue() {
				return n.val
			}
			if eq.IsFalse() {
				n = n.prev
				continue
			}
			k := readKey{n, idx.ID}
			if r, ok := memo[k]; ok {
				return r
			}
			res := tt.Ite(eq, n.val, p.arrRead1(n.prev, idx, elem, memo))
			memo[k] = res
			return res
		case aCopy:
			rel := tt.Bin(OSub, idx, n.dOff)
			in := tt.Cmp(OUlt, rel, n.cnt)
			if in.IsFalse() {
				n = n.prev
				continue
			}
			if in.IsTrue() {
				idx = tt.Bin(OAdd, n.sOff, rel)
				n = n.src
				continue
			}
			k := readKey{n, idx.ID}
			if r, ok := memo[k]; ok {
				return r
			}
			a := p.arrRead1(n.src, tt.Bin(OAdd, n.sOff, rel), elem, memo)
			b := p.arrRead1(n.prev, idx, elem, memo)
			res := tt.Ite(in, a, b)
			memo[k] = res
			return res
		}
		panic("bad ANode kind")
	}
}

func (p *Path) arrWrite(a *Arr, idx *Term, v *Term) {
	if v.S != a.elem {
		panic(fmt.Sprintf("arrWrite sort mismatch: %v into %v", v.S, a.elem))
	}
	if idx.IsConst() {
		if a.head.kind == aLayer && !a.head.frozen {
			a.head.m[idx.C] = v
			return
		}
		a.head = &ANode{kind: aLayer, prev: a.head, m: map[uint64]*Term{idx.C: v}, depth: a.head.depth + 1}
		return
	}
	a.head = &ANode{kind: aStore, prev: a.head, idx: idx, val: v, depth: a.head.depth + 1}
}

func (p *Path) arrCopy(dst *Arr, dOff *Term, src *ANode, sOff *Term, n *Term) {
	if n.IsConst() && n.C == 0 {
		return
	}
	freeze(src)
	freeze(dst.head)
	// small concrete copies of concrete-index data become plain writes (keeps histories shallow)
	if n.IsConst() && n.C <= 64 && dOff.IsConst() && sOff.IsConst() {
		vals := make([]*Term, n.C)
		for i := uint64(0); i < n.C; i++ {
			vals[i] = p.arrRead(src, p.tt.U64(sOff.C+i), dst.elem)
		}
		for i := uint64(0); i < n.C; i++ {
			p.arrWrite(dst, p.tt.U64(dOff.C+i), vals[i])
		}
		return
	}
	dst.head = &ANode{kind: aCopy, prev: dst.head, dOff: dOff, cnt: n, src: src, sOff: sOff, depth: dst.head.depth + 1}
}

// ---------- slices ----------

func (p *Path) newArr(elem Sort, n *Term) *Arr {
	return &Arr{elem: elem, n: n, head: &ANode{kind: aZero}}
}

func (p *Path) makeSlice(fr *Frame, x *ssa.MakeSlice) Value {
	tt := p.tt
	ln := p.idx64(fr, x.Len)
	cp := p.idx64(fr, x.Cap)
	ok := tt.And(tt.Cmp(OSle, tt.U64(0), ln), tt.Cmp(OSle, ln, cp))
	ok = tt.And(ok, tt.Cmp(OSle, cp, tt.U64(1<<48)))
	p.boundsCheck(fr, ok, "makeslice: len out of range")
	et := x.Type().Underlying().(*types.Slice).Elem()
	if s, isS := scalarSort(et); isS {
		return BSlice{arr: p.newArr(s, cp), off: tt.U64(0), n: ln, cap: cp}
	}
	l := p.concLen(ln, "make slice len")
	c := p.concLen(cp, "make slice cap")
	ga := &GArr{cells: make([]Value, c)}
	for i := range ga.cells {
		ga.cells[i] = p.zero(et)
	}
	return GSlice{arr: ga, off: 0, n: l, cap: c}
}

func (p *Path) indexAddr(fr *Frame, x *ssa.IndexAddr) Value {
	tt := p.tt
	base := fr.get(x.X)
	idx := p.idx64(fr, x.Index)
	switch b := base.(type) {
	case BSlice:
		p.boundsCheck(fr, tt.Cmp(OUlt, idx, b.n), "index out of range")
		if b.arr == nil {
			p.rtPanic(fr, "index out of range (nil slice)")
		}
		return Ptr{arr: b.arr, idx: tt.Bin(OAdd, b.off, idx)}
	case GSlice:
		i := p.concIndex(fr, idx, b.n)
		return Ptr{slot: &b.arr.cells[b.off+i]}
	case Ptr: // pointer to array
		if b.slot == nil {
			p.rtPanic(fr, "invalid memory address or nil pointer dereference")
		}
		switch a := (*b.slot).(type) {
		case *Arr:
			p.boundsCheck(fr, tt.Cmp(OUlt, idx, a.n), "index out of range")
			return Ptr{arr: a, idx: idx}
		case Array:
			i := p.concIndex(fr, idx, len(a))
			return Ptr{slot: &a[i]}
		}
	}
	p.unsupported("IndexAddr on %T at %s", base, p.site(fr))
	return nil
}

// concIndex bounds-checks and concretises an index into n generic cells.
func (p *Path) concIndex(fr *Frame, idx *Term, n int) int {
	tt := p.tt
	p.boundsCheck(fr, tt.Cmp(OUlt, idx, tt.U64(uint64(n))), "index out of range")
	return int(p.concretize(idx, "index"))
}

func (p *Path) index(fr *Frame, x *ssa.Index) Value {
	tt := p.tt
	base := fr.get(x.X)
	idx := p.idx64(fr, x.Index)
	switch b := base.(type) {
	case *Arr:
		p.boundsCheck(fr, tt.Cmp(OUlt, idx, b.n), "index out of range")
		return p.arrRead(b.head, idx, b.elem)
	case Array:
		i := p.concIndex(fr, idx, len(b))
		return p.copyVal(b[i])
	case Str:
		p.boundsCheck(fr, tt.Cmp(OUlt, idx, p.strLen(b)), "index out of range (string)")
		return p.strByte(b, idx)
	}
	p.unsupported("Index on %T", base)
	return nil
}

func (p *Path) slice(fr *Frame, x *ssa.Slice) Value {
	tt := p.tt
	base := fr.get(x.X)
	var lo, hi, mx *Term
	if x.Low != nil {
		lo = p.idx64(fr, x.Low)
	}
	if x.High != nil {
		hi = p.idx64(fr, x.High)
	}
	if x.Max != nil {
		mx = p.idx64(fr, x.Max)
	}
	switch b := base.(type) {
	case Str:
		return p.strSlice(fr, b, lo, hi)
	case BSlice:
		return p.bslice(fr, b, lo, hi, mx)
	case GSlice:
		return p.gslice(fr, b, lo, hi, mx)
	case Ptr:
		if b.slot == nil {
			p.rtPanic(fr, "invalid memory address or nil pointer dereference")
		}
		switch a := (*b.slot).(type) {
		case *Arr:
			return p.bslice(fr, BSlice{arr: a, off: tt.U64(0), n: a.n, cap: a.n}, lo, hi, mx)
		case Array:
			// need stable backing: convert array storage into GArr sharing cells
			ga := &GArr{cells: a}
			return p.gslice(fr, GSlice{arr: ga, off: 0, n: len(a), cap: len(a)}, lo, hi, mx)
		}
	}
	p.unsupported("Slice on %T at %s", base, p.site(fr))
	return nil
}

func (p *Path) bslice(fr *Frame, b BSlice, lo, hi, mx *Term) Value {
	tt := p.tt
	if b.arr == nil {
		b = BSlice{arr: nil, off: tt.U64(0), n: tt.U64(0), cap: tt.U64(0)}
	}
	if lo == nil {
		lo = tt.U64(0)
	}
	if hi == nil {
		hi = b.n
	}
	capv := b.cap
	if mx == nil {
		mx = capv
	}
	ok := tt.And(tt.Cmp(OSle, tt.U64(0), lo), tt.Cmp(OSle, lo, hi))
	ok = tt.And(ok, tt.And(tt.Cmp(OSle, hi, mx), tt.Cmp(OSle, mx, capv)))
	p.boundsCheck(fr, ok, "slice bounds out of range")
	if b.arr == nil {
		return BSlice{}
	}
	return BSlice{arr: b.arr, off: tt.Bin(OAdd, b.off, lo), n: tt.Bin(OSub, hi, lo), cap: tt.Bin(OSub, mx, lo)}
}

func (p *Path) gslice(fr *Frame, b GSlice, lo, hi, mx *Term) Value {
	tt := p.tt
	if lo == nil {
		lo = tt.U64(0)
	}
	if hi == nil {
		hi = tt.U64(uint64(b.n))
	}
	if mx == nil {
		mx = tt.U64(uint64(b.cap))
	}
	ok := tt.And(tt.Cmp(OSle, tt.U64(0), lo), tt.Cmp(OSle, lo, hi))
	ok = tt.And(ok, tt.And(tt.Cmp(OSle, hi, mx), tt.Cmp(OSle, mx, tt.U64(uint64(b.cap)))))
	p.boundsCheck(fr, ok, "slice bounds out of range")
	if b.arr == nil {
		return GSlice{}
	}
	l := int(p.concretize(lo, "slice low"))
	h := int(p.concretize(hi, "slice high"))
	m := int(p.concretize(mx, "slice max"))
	return GSlice{arr: b.arr, off: b.off + l, n: h - l, cap: m - l}
}

func (p *Path) sliceToArrayPtr(fr *Frame, x *ssa.SliceToArrayPointer) Value {
	v := fr.get(x.X)
	at := x.Type().Underlying().(*types.Pointer).Elem().Underlying().(*types.Array)
	switch b := v.(type) {
	case BSlice:
		tt := p.tt
		n := tt.U64(uint64(at.Len()))
		p.boundsCheck(fr, tt.Cmp(OUle, n, b.n), "cannot convert slice to array pointer: length too short")
		if b.arr == nil {
			if at.Len() == 0 {
				return Ptr{}
			}
		}
		// view: only supported when the slice starts at offset 0 of an array of exactly this length
		if b.off.IsConst() && b.off.C == 0 && b.arr.n.IsConst() && b.arr.n.C == uint64(at.Len()) {
			slot := new(Value)
			*slot = b.arr
			return Ptr{slot: slot}
		}
		p.unsupported("slice to array pointer with offset")
	}
	p.unsupported("SliceToArrayPointer on %T", v)
	return nil
}

// ---------- append / copy ----------

func (p *Path) appendOp(fr *Frame, sv Value, ev Value, st types.Type) Value {
	tt := p.tt
	switch s := sv.(type) {
	case BSlice:
		var esl BSlice
		switch e := ev.(type) {
		case BSlice:
			esl = e
		case Str:
			node, off, n := p.strNode(e)
			esl = BSlice{arr: &Arr{elem: BV8, n: tt.Bin(OAdd, off, n), head: node}, off: off, n: n, cap: n}
		default:
			p.unsupported("append of %T to scalar slice", ev)
		}
		if esl.arr == nil || (esl.n.IsConst() && esl.n.C == 0) {
			return s
		}
		if s.arr == nil {
			s = BSlice{arr: nil, off: tt.U64(0), n: tt.U64(0), cap: tt.U64(0)}
		}
		newLen := tt.Bin(OAdd, s.n, esl.n)
		fits := tt.Cmp(OUle, newLen, s.cap)
		if s.arr != nil && p.branch(fits) {
			p.arrCopy(s.arr, tt.Bin(OAdd, s.off, s.n), esl.arr.head, esl.off, esl.n)
			return BSlice{arr: s.arr, off: s.off, n: newLen, cap: s.cap}
		}
		// grow: new array; capacity policy: doubled or exact, whichever is larger (A-APPEND: contents beyond len are zero)
		elem := esl.arr.elem
		if s.arr != nil {
			elem = s.arr.elem
		}
		dbl := tt.Bin(OAdd, s.cap, s.cap)
		ncap := tt.Ite(tt.Cmp(OUlt, dbl, newLen), newLen, dbl)
		na := p.newArr(elem, ncap)
		if s.arr != nil {
			p.arrCopy(na, tt.U64(0), s.arr.head, s.off, s.n)
		}
		p.arrCopy(na, s.n, esl.arr.head, esl.off, esl.n)
		return BSlice{arr: na, off: tt.U64(0), n: newLen, cap: ncap}
	case GSlice:
		e, ok := ev.(GSlice)
		if !ok {
			p.unsupported("append of %T to generic slice", ev)
		}
		if e.n == 0 {
			return s
		}
		if s.arr != nil && s.n+e.n <= s.cap {
			for i := 0; i < e.n; i++ {
				s.arr.cells[s.off+s.n+i] = p.copyVal(e.arr.cells[e.off+i])
			}
			return GSlice{arr: s.arr, off: s.off, n: s.n + e.n, cap: s.cap}
		}
		ncap := 2 * s.cap
		if ncap < s.n+e.n {
			ncap = s.n + e.n
		}
		ga := &GArr{cells: make([]Value, ncap)}
		for i := 0; i < s.n; i++ {
			ga.cells[i] = s.arr.cells[s.off+i]
		}
		for i := 0; i < e.n; i++ {
			ga.cells[s.n+i] = p.copyVal(e.arr.cells[e.off+i])
		}
		// remaining cells: zero values are filled lazily (nil) – fill with nil marker replaced on slicing
		var et types.Type
		if sl, ok := st.Underlying().(*types.Slice); ok {
			et = sl.Elem()
		}
		for i := s.n + e.n; i < ncap; i++ {
			if et != nil {
				ga.cells[i] = p.zero(et)
			}
		}
		return GSlice{arr: ga, off: 0, n: s.n + e.n, cap: ncap}
	}
	p.unsupported("append to %T", sv)
	return nil
}

func (p *Path) copyOp(fr *Frame, dv, sv Value) Value {
	tt := p.tt
	switch d := dv.(type) {
	case BSlice:
		var s BSlice
		switch e := sv.(type) {
		case BSlice:
			s = e
		case Str:
			node, off, n := p.strNode(e)
			s = BSlice{arr: &Arr{elem: BV8, n: tt.Bin(OAdd, off, n), head: node}, off: off, n: n, cap: n}
		}
		if d.arr == nil || s.arr == nil {
			return tt.U64(0)
		}
		n := tt.Ite(tt.Cmp(OUlt, d.n, s.n), d.n, s.n)
		p.arrCopy(d.arr, d.off, s.arr.head, s.off, n)
		return n
	case GSlice:
		s := sv.(GSlice)
		n := d.n
		if s.n < n {
			n = s.n
		}
		tmp := make([]Value, n)
		for i := 0; i < n; i++ {
			tmp[i] = p.copyVal(s.arr.cells[s.off+i])
		}
		for i := 0; i < n; i++ {
			d.arr.cells[d.off+i] = tmp[i]
		}
		return tt.U64(uint64(n))
	}
	p.unsupported("copy into %T", dv)
	return nil
}

// ---------- maps ----------

func (p *Path) concreteKey(v Value) (string, bool) {
	switch x := v.(type) {
	case *Term:
		if x.IsConst() {
			return fmt.Sprintf("%d:%d:%x", x.S.K, x.S.W, x.C), true
		}
		return "", false
	case Str:
		if x.sym == nil {
			return "s:" + x.c, true
		}
		return "", false
	case Ptr:
		if x.arr != nil {
			return "", false
		}
		return fmt.Sprintf("p:%p", x.slot), true
	case Iface:
		if x.t == nil {
			return "i:nil", true
		}
		k, ok := p.concreteKey(x.v)
		return "i:" + x.t.String() + ":" + k, ok
	case Struct:
		s := "{"
		for _, f := range x {
			k, ok := p.concreteKey(f)
			if !ok {
				return "", false
			}
			s += k + ","
		}
		return s + "}", true
	case *Arr:
		if !x.n.IsConst() {
			return "", false
		}
		s := "["
		for i := uint64(0); i < x.n.C; i++ {
			t := p.arrRead(x.head, p.tt.U64(i), x.elem)
			if !t.IsConst() {
				return "", false
			}
			s += fmt.Sprintf("%x,", t.C)
		}
		return s + "]", true
	case *Chan:
		return fmt.Sprintf("c:%p", x), true
	case *Map:
		return fmt.Sprintf("m:%p", x), true
	case nil:
		return "nil", true
	}
	return "", false
}

// mapFind returns the entry for key (forking on symbolic equality), or nil.
func (p *Path) mapFind(fr *Frame, m *Map, key Value) *MapEntry {
	if m == nil {
		return nil
	}
	ck, kc := p.concreteKey(key)
	for _, e := range m.entries {
		if kc {
			if ek, ec := p.concreteKey(e.k); ec {
				if ek == ck {
					return e
				}
				continue
			}
		}
		eq := p.valEq(fr, m.keyT, e.k, key)
		if p.branch(eq) {
			return e
		}
	}
	return nil
}

func (p *Path) lookup(fr *Frame, x *ssa.Lookup) Value {
	base := fr.get(x.X)
	if s, ok := base.(Str); ok {
		tt := p.tt
		idx := p.idx64(fr, x.Index)
		p.boundsCheck(fr, tt.Cmp(OUlt, idx, p.strLen(s)), "index out of range (string)")
		return p.strByte(s, idx)
	}
	m, ok := base.(*Map)
	if !ok {
		p.unsupported("Lookup on %T", base)
	}
	key := fr.get(x.Index)
	e := p.mapFind(fr, m, key)
	var v Value
	if e != nil {
		v = p.copyVal(e.v)
	} else {
		v = p.zero(x.X.Type().Underlying().(*types.Map).Elem())
	}
	if x.CommaOk {
		return Tuple{v, p.tt.BoolC(e != nil)}
	}
	return v
}

func (p *Path) mapUpdate(fr *Frame, mv Value, key, val Value) {
	m, _ := mv.(*Map)
	if m == nil {
		p.rtPanic(fr, "assignment to entry in nil map")
	}
	if e := p.mapFind(fr, m, key); e != nil {
		e.v = p.copyVal(val)
		return
	}
	m.entries = append(m.entries, &MapEntry{k: p.copyVal(key), v: p.copyVal(val)})
}

func (p *Path) mapDelete(fr *Frame, mv Value, key Value) {
	m, _ := mv.(*Map)
	if m == nil {
		return
	}
	if e := p.mapFind(fr, m, key); e != nil {
		for i, x := range m.entries {
			if x == e {
				m.entries = append(m.entries[:i:i], m.entries[i+1:]...)
				break
			}
		}
	}
}

// ---------- range ----------

func (p *Path) rangeIter(fr *Frame, v Value) Value {
	switch x := v.(type) {
	case *Map:
		it := &RangeIter{m: x}
		if x != nil {
			it.keys = append(it.keys, x.entries...)
		}
		return it
	case Str:
		return &RangeIter{s: x}
	}
	p.unsupported("range over %T", v)
	return nil
}

func (p *Path) next(fr *Frame, x *ssa.Next) Value {
	it := fr.get(x.Iter).(*RangeIter)
	tt := p.tt
	if x.IsString {
		s := it.s
		if s.sym == nil {
			if it.pos >= len(s.c) {
				return Tuple{tt.False(), tt.U64(0), tt.Const(BV32, 0)}
			}
			r, sz := decodeRune(s.c[it.pos:])
			i := it.pos
			it.pos += sz
			return Tuple{tt.True(), tt.U64(uint64(i)), tt.Const(BV32, uint64(uint32(r)))}
		}
		n := p.concLen(s.sym.n, "range over symbolic string")
		if it.pos >= n {
			return Tuple{tt.False(), tt.U64(0), tt.Const(BV32, 0)}
		}
		b := p.strByte(s, tt.U64(uint64(it.pos)))
		// ASCII only: a byte >= 0x80 in a symbolic string is outside the model
		if !p.branch(tt.Cmp(OUlt, b, tt.Const(BV8, 0x80))) {
			p.unsupported("range over symbolic string with non-ASCII byte")
		}
		i := it.pos
		it.pos++
		return Tuple{tt.True(), tt.U64(uint64(i)), tt.Zext(b, 32)}
	}
	// map: skip entries deleted meanwhile
	for it.pos < len(it.keys) {
		e := it.keys[it.pos]
		it.pos++
		live := false
		for _, me := range it.m.entries {
			if me == e {
				live = true
				break
			}
		}
		if live {
			return Tuple{tt.True(), p.copyVal(e.k), p.copyVal(e.v)}
		}
	}
	mt := x.Iter.(*ssa.Range).X.Type().Underlying().(*types.Map)
	return Tuple{tt.False(), p.zero(mt.Key()), p.zero(mt.Elem())}
}

// idx64 widens an index/length operand to 64 bits according to the signedness of its Go type.
func (p *Path) idx64(fr *Frame, v ssa.Value) *Term {
	t := p.term(fr, fr.get(v))
	if t.S.W == 64 {
		return t
	}
	if isSigned(v.Type()) {
		return p.tt.Sext(t, 64)
	}
	return p.tt.Zext(t, 64)
}
