package main

import (
	"fmt"
	"go/types"
	"strings"

	"golang.org/x/tools/go/ssa"
)

func (p *Path) builtin(fr *Frame, b *ssa.Builtin, args []Value, isDefer bool) Value {
	tt := p.tt
	switch b.Name() {
	case "len":
		switch x := args[0].(type) {
		case Str:
			return p.strLen(x)
		case BSlice:
			if x.arr == nil {
				return tt.U64(0)
			}
			return x.n
		case GSlice:
			return tt.U64(uint64(x.n))
		case *Map:
			if x == nil {
				return tt.U64(0)
			}
			return tt.U64(uint64(len(x.entries)))
		case *Chan:
			if x == nil {
				return tt.U64(0)
			}
			return tt.U64(uint64(len(x.buf)))
		case *Arr:
			return x.n
		case Array:
			return tt.U64(uint64(len(x)))
		case Ptr:
			// pointer to array
			switch a := (*x.slot).(type) {
			case *Arr:
				return a.n
			case Array:
				return tt.U64(uint64(len(a)))
			}
		}
		p.unsupported("len of %T", args[0])
	case "cap":
		switch x := args[0].(type) {
		case BSlice:
			if x.arr == nil {
				return tt.U64(0)
			}
			return x.cap
		case GSlice:
			return tt.U64(uint64(x.cap))
		case *Chan:
			if x == nil {
				return tt.U64(0)
			}
			return tt.U64(uint64(x.cap))
		case *Arr:
			return x.n
		case Array:
			return tt.U64(uint64(len(x)))
		}
		p.unsupported("cap of %T", args[0])
	case "append":
		return p.appendOp(fr, args[0], args[1], b.Type().(*types.Signature).Params().At(0).Type())
	case "copy":
		return p.copyOp(fr, args[0], args[1])
	case "delete":
		p.mapDelete(fr, args[0], args[1])
		return nil
	case "clear":
		switch x := args[0].(type) {
		case *Map:
			if x != nil {
				x.entries = nil
			}
		case BSlice:
			if x.arr != nil {
				p.arrCopy(x.arr, x.off, &ANode{kind: aZero}, tt.U64(0), x.n)
			}
		case GSlice:
			if x.arr != nil {
				et := b.Type().(*types.Signature).Params().At(0).Type().Underlying().(*types.Slice).Elem()
				for i := 0; i < x.n; i++ {
					x.arr.cells[x.off+i] = p.zero(et)
				}
			}
		default:
			p.unsupported("clear of %T", args[0])
		}
		return nil
	case "close":
		c, _ := args[0].(*Chan)
		if c == nil {
			p.rtPanic(fr, "close of nil channel")
		}
		if c.closed {
			p.rtPanic(fr, "close of closed channel")
		}
		c.closed = true
		return nil
	case "min", "max":
		r := p.term(fr, args[0])
		sig := b.Type().(*types.Signature)
		t := sig.Params().At(0).Type()
		for _, a := range args[1:] {
			x := p.term(fr, a)
			var lt *Term
			switch {
			case r.S.K == SFP:
				lt = tt.FCmp(OFLt, x, r)
			case isSigned(t):
				lt = tt.Cmp(OSlt, x, r)
			default:
				lt = tt.Cmp(OUlt, x, r)
			}
			if b.Name() == "min" {
				r = tt.Ite(lt, x, r)
			} else {
				r = tt.Ite(lt, r, x)
			}
		}
		return r
	case "panic":
		panic(goPanic{val: args[0], site: p.site(fr), msg: p.panicString(args[0])})
	case "recover":
		target := fr.caller
		if target != nil && target.panicking != nil {
			v := target.panicking.val
			target.panicking = nil
			return v
		}
		return Iface{}
	case "print", "println":
		return nil
	case "SliceData", "StringData", "String", "Slice", "Add":
		if ext, ok := externals["unsafe."+b.Name()]; ok {
			return ext(p, fr, nil, args)
		}
	case "ssa:wrapnilchk":
		if ptr, ok := args[0].(Ptr); ok && ptr.IsNil() {
			p.rtPanic(fr, "value method called using nil pointer")
		}
		return args[0]
	}
	p.unsupported("builtin %s", b.Name())
	return nil
}

// ---------- channels ----------

func (p *Path) chanSend(fr *Frame, cv Value, v Value) {
	c, _ := cv.(*Chan)
	if c == nil {
		panic(pathEnd{endBlocked, "send on nil channel at " + p.site(fr)})
	}
	if c.closed {
		p.rtPanic(fr, "send on closed channel")
	}
	if len(c.buf) < c.cap {
		c.buf = append(c.buf, p.copyVal(v))
		return
	}
	panic(pathEnd{endBlocked, "send would block forever at " + p.site(fr)})
}

func (p *Path) chanRecv(fr *Frame, cv Value, commaOk bool, resT types.Type) Value {
	c, _ := cv.(*Chan)
	if c == nil {
		panic(pathEnd{endBlocked, "receive from nil channel at " + p.site(fr)})
	}
	var et types.Type
	if commaOk {
		et = resT.(*types.Tuple).At(0).Type()
	} else {
		et = resT
	}
	if len(c.buf) == 0 && !c.closed && c.timer != nil && c.timer.active {
		p.fireTimer(c.timer)
	}
	if len(c.buf) > 0 {
		v := c.buf[0]
		c.buf = c.buf[1:]
		if commaOk {
			return Tuple{v, p.tt.True()}
		}
		return v
	}
	if c.closed {
		if commaOk {
			return Tuple{p.zero(et), p.tt.False()}
		}
		return p.zero(et)
	}
	panic(pathEnd{endBlocked, "receive would block forever at " + p.site(fr)})
}

func (p *Path) fireTimer(t *VTimer) {
	tt := p.tt
	t.active = false
	// the model clock advances to the deadline if it is still in the future
	late := tt.Cmp(OSlt, p.clockTerm(), t.deadline)
	p.clock = tt.Ite(late, t.deadline, p.clockTerm())
	if len(t.ch.buf) < t.ch.cap {
		t.ch.buf = append(t.ch.buf, p.timeStructAt(p.clock))
	}
}

func (p *Path) selectOp(fr *Frame, x *ssa.Select) Value {
	tt := p.tt
	type st struct {
		c     *Chan
		ready bool
		timer bool
	}
	states := make([]st, len(x.States))
	var readyIdx, timerIdx []int
	for i, s := range x.States {
		c, _ := fr.get(s.Chan).(*Chan)
		states[i].c = c
		if c == nil {
			continue
		}
		if s.Dir == types.SendOnly {
			if c.closed {
				p.rtPanic(fr, "send on closed channel")
			}
			states[i].ready = len(c.buf) < c.cap
		} else {
			states[i].ready = len(c.buf) > 0 || c.closed
			if !states[i].ready && c.timer != nil && c.timer.active {
				states[i].timer = true
				timerIdx = append(timerIdx, i)
			}
		}
		if states[i].ready {
			readyIdx = append(readyIdx, i)
		}
	}
	chosen := -1
	switch {
	case len(readyIdx) == 1:
		chosen = readyIdx[0]
	case len(readyIdx) > 1:
		// Go picks uniformly at random: every ready case is a possible outcome
		sel := tt.Var(p.fresh("select"), BV64)
		p.inputs = append(p.inputs, InputRec{Name: sel.Name, Kind: "internal"})
		for k, i := range readyIdx {
			if k == len(readyIdx)-1 {
				chosen = i
				break
			}
			if p.branch(tt.Eq(sel, tt.U64(uint64(k)))) {
				chosen = i
				break
			}
		}
	case !x.Blocking:
		chosen = -1
	case len(timerIdx) > 0:
		if len(timerIdx) > 1 {
			p.unsupported("select blocked on several virtual timers")
		}
		chosen = timerIdx[0]
		p.fireTimer(states[chosen].c.timer)
	default:
		panic(pathEnd{endBlocked, "select would block forever at " + p.site(fr)})
	}
	res := Tuple{tt.I64(int64(chosen)), tt.False()}
	for i, s := range x.States {
		if s.Dir == types.RecvOnly {
			et := s.Chan.Type().Underlying().(*types.Chan).Elem()
			if i == chosen {
				c := states[i].c
				if len(c.buf) > 0 {
					res = append(res, c.buf[0])
					c.buf = c.buf[1:]
					res[1] = tt.True()
				} else {
					res = append(res, p.zero(et))
				}
			} else {
				res = append(res, p.zero(et))
			}
		} else if i == chosen {
			c := states[i].c
			c.buf = append(c.buf, p.copyVal(fr.get(s.Send)))
		}
	}
	return res
}

// ---------- model clock ----------

func (p *Path) clockTerm() *Term {
	if p.clock == nil {
		// an arbitrary instant at least one hour after the zero instant
		c := p.tt.Var(p.fresh("clock0"), BV64)
		p.inputs = append(p.inputs, InputRec{Name: c.Name, Kind: "internal"})
		p.assume(p.tt.And(p.tt.Cmp(OSle, p.tt.I64(3600e9), c), p.tt.Cmp(OSle, c, p.tt.I64(1<<60))))
		p.clock = c
	}
	return p.clock
}

// now: the current instant of the model clock. By default the clock stands still between
// explicit vx_clock_advance calls and timer expiries; in free mode every reading is a fresh,
// arbitrary later instant.
func (p *Path) now() *Term {
	if p.clockFree {
		return p.advanceClock()
	}
	return p.clockTerm()
}

// advanceClock returns a fresh instant >= the current one.
func (p *Path) advanceClock() *Term {
	tt := p.tt
	cur := p.clockTerm()
	d := tt.Var(p.fresh("clockdt"), BV64)
	p.inputs = append(p.inputs, InputRec{Name: d.Name, Kind: "internal"})
	p.assume(tt.And(tt.Cmp(OSle, tt.I64(0), d), tt.Cmp(OSle, d, tt.I64(1<<50))))
	p.clock = tt.Bin(OAdd, cur, d)
	return p.clock
}

func (p *Path) timeStructAt(ns *Term) Value {
	return Struct{p.tt.U64(0), ns, Ptr{}}
}

func hasPrefix(s, pre string) bool { return strings.HasPrefix(s, pre) }

var _ = fmt.Sprintf
