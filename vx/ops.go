package main

import (
	"fmt"
	"go/token"
	"go/types"
	"unicode/utf8"

	"golang.org/x/tools/go/ssa"
)

func (p *Path) unop(fr *Frame, x *ssa.UnOp) Value {
	v := fr.get(x.X)
	switch x.Op {
	case token.MUL: // load
		return p.load(fr, v)
	case token.NOT:
		return p.tt.Not(p.term(fr, v))
	case token.SUB:
		t := p.term(fr, v)
		if t.S.K == SFP {
			return p.tt.FNeg(t)
		}
		return p.tt.Un(ONeg, t)
	case token.XOR:
		return p.tt.Un(ONot, p.term(fr, v))
	case token.ARROW:
		return p.chanRecv(fr, v, x.CommaOk, x.Type())
	}
	p.unsupported("unop %s", x.Op)
	return nil
}

func (p *Path) term(fr *Frame, v Value) *Term {
	t, ok := v.(*Term)
	if !ok {
		if _, isP := v.(Poison); isP {
			p.unsupported("use of poisoned value at %s", p.site(fr))
		}
		panic(fmt.Sprintf("expected scalar, got %T at %s", v, p.site(fr)))
	}
	return t
}

func (p *Path) binop(fr *Frame, op token.Token, xt types.Type, xv, yv Value, yt types.Type) Value {
	switch op {
	case token.EQL:
		return p.valEq(fr, xt, xv, yv)
	case token.NEQ:
		return p.tt.Not(p.valEq(fr, xt, xv, yv))
	}
	if isString(xt) {
		a, b := xv.(Str), yv.(Str)
		switch op {
		case token.ADD:
			return p.strConcat(a, b)
		case token.LSS, token.LEQ, token.GTR, token.GEQ:
			if a.sym == nil && b.sym == nil {
				var r bool
				switch op {
				case token.LSS:
					r = a.c < b.c
				case token.LEQ:
					r = a.c <= b.c
				case token.GTR:
					r = a.c > b.c
				case token.GEQ:
					r = a.c >= b.c
				}
				return p.tt.BoolC(r)
			}
			p.unsupported("ordering comparison of symbolic strings")
		}
	}
	a, b := p.term(fr, xv), p.term(fr, yv)
	tt := p.tt
	if a.S.K == SFP {
		switch op {
		case token.ADD:
			return tt.FBin(OFAdd, a, b)
		case token.SUB:
			return tt.FBin(OFSub, a, b)
		case token.MUL:
			return tt.FBin(OFMul, a, b)
		case token.QUO:
			return tt.FBin(OFDiv, a, b)
		case token.LSS:
			return tt.FCmp(OFLt, a, b)
		case token.LEQ:
			return tt.FCmp(OFLe, a, b)
		case token.GTR:
			return tt.FCmp(OFLt, b, a)
		case token.GEQ:
			return tt.FCmp(OFLe, b, a)
		}
		p.unsupported("float binop %s", op)
	}
	if a.S.K == SBool {
		switch op {
		case token.AND, token.LAND:
			return tt.And(a, b)
		case token.OR, token.LOR:
			return tt.Or(a, b)
		}
		p.unsupported("bool binop %s", op)
	}
	signed := isSigned(xt)
	switch op {
	case token.ADD:
		return tt.Bin(OAdd, a, b)
	case token.SUB:
		return tt.Bin(OSub, a, b)
	case token.MUL:
		return tt.Bin(OMul, a, b)
	case token.QUO, token.REM:
		// division by zero panics
		zero := tt.Eq(b, tt.Const(b.S, 0))
		if p.branch(zero) {
			p.rtPanic(fr, "integer divide by zero")
		}
		if signed {
			if op == token.QUO {
				return tt.Bin(OSDiv, a, b)
			}
			return tt.Bin(OSRem, a, b)
		}
		if op == token.QUO {
			return tt.Bin(OUDiv, a, b)
		}
		return tt.Bin(OURem, a, b)
	case token.AND:
		return tt.Bin(OAnd, a, b)
	case token.OR:
		return tt.Bin(OOr, a, b)
	case token.XOR:
		return tt.Bin(OXor, a, b)
	case token.AND_NOT:
		return tt.Bin(OAnd, a, tt.Un(ONot, b))
	case token.SHL, token.SHR:
		// shift count: y may have different width and signedness
		if isSigned(yt) {
			neg := tt.Cmp(OSlt, b, tt.Const(b.S, 0))
			if p.branch(neg) {
				p.rtPanic(fr, "negative shift amount")
			}
		}
		w := a.S.W
		var cnt *Term
		if b.S.W > w {
			// if count >= w result is 0 / sign; clamp
			big := tt.Cmp(OUle, tt.Const(b.S, uint64(w)), b)
			cnt = tt.Ite(big, tt.Const(a.S, uint64(w)), tt.Trunc(b, w))
		} else {
			cnt = tt.Zext(b, w)
		}
		// SMT shifts by >= width yield 0 (shl/lshr) or sign fill (ashr): matches Go.
		if op == token.SHL {
			return tt.Bin(OShl, a, cnt)
		}
		if signed {
			return tt.Bin(OAShr, a, cnt)
		}
		return tt.Bin(OLShr, a, cnt)
	case token.LSS:
		if signed {
			return tt.Cmp(OSlt, a, b)
		}
		return tt.Cmp(OUlt, a, b)
	case token.LEQ:
		if signed {
			return tt.Cmp(OSle, a, b)
		}
		return tt.Cmp(OUle, a, b)
	case token.GTR:
		if signed {
			return tt.Cmp(OSlt, b, a)
		}
		return tt.Cmp(OUlt, b, a)
	case token.GEQ:
		if signed {
			return tt.Cmp(OSle, b, a)
		}
		return tt.Cmp(OUle, b, a)
	}
	p.unsupported("binop %s", op)
	return nil
}

// valEq returns a Bool term for x == y.
func (p *Path) valEq(fr *Frame, t types.Type, x, y Value) *Term {
	tt := p.tt
	switch a := x.(type) {
	case *Term:
		b, ok := y.(*Term)
		if !ok {
			return tt.False()
		}
		if a.S != b.S {
			return tt.False()
		}
		return tt.Eq(a, b)
	case Str:
		b, ok := y.(Str)
		if !ok {
			return tt.False()
		}
		return p.strEq(a, b)
	case Ptr:
		b, ok := y.(Ptr)
		if !ok {
			if y == nil {
				return tt.BoolC(a.IsNil())
			}
			return tt.False()
		}
		if a.slot != b.slot || a.arr != b.arr {
			return tt.False()
		}
		if a.arr != nil {
			return tt.Eq(a.idx, b.idx)
		}
		return tt.True()
	case Iface:
		b, ok := y.(Iface)
		if !ok {
			if y == nil {
				return tt.BoolC(a.t == nil)
			}
			return tt.False()
		}
		if a.t == nil || b.t == nil {
			return tt.BoolC(a.t == nil && b.t == nil)
		}
		if !types.Identical(a.t, b.t) {
			return tt.False()
		}
		return p.valEq(fr, a.t, a.v, b.v)
	case Struct:
		b := y.(Struct)
		r := tt.True()
		st, _ := t.Underlying().(*types.Struct)
		for i := range a {
			var ft types.Type
			if st != nil {
				if st.Field(i).Name() == "_" {
					continue
				}
				ft = st.Field(i).Type()
			}
			r = tt.And(r, p.valEq(fr, ft, a[i], b[i]))
			if r.IsFalse() {
				return r
			}
		}
		return r
	case Array:
		b := y.(Array)
		r := tt.True()
		for i := range a {
			r = tt.And(r, p.valEq(fr, nil, a[i], b[i]))
		}
		return r
	case *Arr:
		b := y.(*Arr)
		n := a.n
		if !n.IsConst() {
			p.unsupported("comparison of arrays with symbolic length")
		}
		r := tt.True()
		for i := uint64(0); i < n.C; i++ {
			ix := tt.U64(i)
			r = tt.And(r, p.scalarEq(p.arrRead(a.head, ix, a.elem), p.arrRead(b.head, ix, b.elem)))
		}
		return r
	case *Map:
		if b, ok := y.(*Map); ok {
			return tt.BoolC(a == b)
		}
		return tt.BoolC(a == nil)
	case *Chan:
		if b, ok := y.(*Chan); ok {
			return tt.BoolC(a == b)
		}
		return tt.BoolC(a == nil)
	case *Closure:
		if b, ok := y.(*Closure); ok {
			return tt.BoolC(a == b)
		}
		if y == nil {
			return tt.BoolC(a == nil)
		}
		return tt.False()
	case *ssa.Function:
		if b, ok := y.(*ssa.Function); ok {
			return tt.BoolC(a == b)
		}
		return tt.False()
	case BSlice:
		b, ok := y.(BSlice)
		if ok && (a.arr == nil || b.arr == nil) {
			return tt.BoolC(a.arr == nil && b.arr == nil)
		}
	case GSlice:
		b, ok := y.(GSlice)
		if ok && (a.arr == nil || b.arr == nil) {
			return tt.BoolC(a.arr == nil && b.arr == nil)
		}
	case nil:
		switch b := y.(type) {
		case nil:
			return tt.True()
		case Ptr:
			return tt.BoolC(b.IsNil())
		case Iface:
			return tt.BoolC(b.t == nil)
		}
	case Poison:
		p.unsupported("comparison of poisoned value at %s", p.site(fr))
	}
	p.unsupported("equality on %T / %T at %s", x, y, p.site(fr))
	return nil
}

func (p *Path) scalarEq(a, b *Term) *Term { return p.tt.Eq(a, b) }

// ---------- conversions ----------

func (p *Path) convert(fr *Frame, from, to types.Type, v Value) Value {
	tt := p.tt
	fu, tu := from.Underlying(), to.Underlying()
	if tp, ok := tu.(*types.TypeParam); ok {
		_ = tp
		p.unsupported("convert to type parameter")
	}
	ss, sok := scalarSort(from)
	ts, tok := scalarSort(to)
	if sok && tok {
		a := p.term(fr, v)
		switch {
		case ss.K == SBV && ts.K == SBV:
			if ts.W <= ss.W {
				return tt.Trunc(a, ts.W)
			}
			if isSigned(from) {
				return tt.Sext(a, ts.W)
			}
			return tt.Zext(a, ts.W)
		case ss.K == SBV && ts.K == SFP:
			return tt.FFromInt(a, isSigned(from), ts)
		case ss.K == SFP && ts.K == SBV:
			if ts.W < 64 {
				// convert via 64 bits then truncate (Go: implementation-defined when out of range)
				r := tt.FToInt(a, isSigned(to), 64)
				return tt.Trunc(r, ts.W)
			}
			return tt.FToInt(a, isSigned(to), ts.W)
		case ss.K == SFP && ts.K == SFP:
			return tt.FToFP(a, ts)
		case ss.K == SBool && ts.K == SBool:
			return a
		}
	}
	// string <-> []byte, []rune, int -> string
	if isString(to) {
		switch f := fu.(type) {
		case *types.Basic:
			if f.Info()&types.IsString != 0 {
				return v
			}
			if f.Info()&types.IsInteger != 0 {
				a := p.term(fr, v)
				if a.IsConst() {
					return Str{c: string(rune(a.Int64()))}
				}
				p.unsupported("string(symbolic rune)")
			}
		case *types.Slice:
			if s, ok := scalarSort(f.Elem()); ok && s == BV8 {
				return p.bytesToStr(v.(BSlice))
			}
			if s, ok := scalarSort(f.Elem()); ok && s == BV32 {
				bs := v.(BSlice)
				n := p.concLen(bs.n, "[]rune→string")
				var out []rune
				for i := 0; i < n; i++ {
					c := p.arrRead(bs.arr.head, tt.Bin(OAdd, bs.off, tt.U64(uint64(i))), BV32)
					if !c.IsConst() {
						p.unsupported("string([]rune) with symbolic runes")
					}
					out = append(out, rune(int32(c.C)))
				}
				return Str{c: string(out)}
			}
		}
	}
	if isString(from) {
		if sl, ok := tu.(*types.Slice); ok {
			s := v.(Str)
			es, _ := scalarSort(sl.Elem())
			if es == BV8 {
				return p.strToBytes(s)
			}
			if es == BV32 {
				if s.sym != nil {
					p.unsupported("[]rune(symbolic string)")
				}
				rs := []rune(s.c)
				arr := &Arr{elem: BV32, n: tt.U64(uint64(len(rs))), head: &ANode{kind: aZero}}
				for i, r := range rs {
					p.arrWrite(arr, tt.U64(uint64(i)), tt.Const(BV32, uint64(uint32(r))))
				}
				n := tt.U64(uint64(len(rs)))
				return BSlice{arr: arr, off: tt.U64(0), n: n, cap: n}
			}
		}
	}
	// pointer <-> unsafe.Pointer, etc.
	switch tu.(type) {
	case *types.Pointer:
		return v
	case *types.Basic:
		if tu.(*types.Basic).Kind() == types.UnsafePointer {
			return v
		}
	case *types.Slice, *types.Signature, *types.Map, *types.Chan, *types.Struct, *types.Array, *types.Interface:
		return v
	}
	p.unsupported("conversion %s -> %s at %s", from, to, p.site(fr))
	return nil
}

// ---------- type assertions ----------

func (p *Path) typeAssert(fr *Frame, x *ssa.TypeAssert) Value {
	v := fr.get(x.X)
	it, ok := v.(Iface)
	if !ok {
		if _, isP := v.(Poison); isP {
			p.unsupported("type assertion on poisoned value")
		}
		panic(fmt.Sprintf("typeAssert on %T", v))
	}
	var okk bool
	var res Value
	if types.IsInterface(x.AssertedType) {
		if it.t != nil {
			okk = p.eng.implements(it.t, x.AssertedType)
		}
		if okk {
			res = it
		} else {
			res = Iface{}
		}
	} else {
		okk = it.t != nil && types.Identical(it.t, x.AssertedType)
		if okk {
			res = it.v
		} else {
			res = p.zero(x.AssertedType)
		}
	}
	if x.CommaOk {
		return Tuple{res, p.tt.BoolC(okk)}
	}
	if !okk {
		var dyn string
		if it.t == nil {
			dyn = "nil"
		} else {
			dyn = it.t.String()
		}
		p.rtPanic(fr, fmt.Sprintf("interface conversion: interface is %s, not %s", dyn, x.AssertedType))
	}
	return res
}

func (e *Engine) implements(t types.Type, iface types.Type) bool {
	key := t.String() + " impl " + iface.String()
	if v, ok := e.implCache.Load(key); ok {
		return v.(bool)
	}
	e.msMu.Lock()
	r := types.Implements(t, iface.Underlying().(*types.Interface))
	e.msMu.Unlock()
	e.implCache.Store(key, r)
	return r
}

// ---------- strings ----------

func (p *Path) strLen(s Str) *Term {
	if s.sym == nil {
		return p.tt.U64(uint64(len(s.c)))
	}
	return s.sym.n
}

func (p *Path) strNode(s Str) (*ANode, *Term, *Term) {
	if s.sym != nil {
		return s.sym.node, s.sym.off, s.sym.n
	}
	n := &ANode{kind: aLayer, prev: &ANode{kind: aZero}, m: map[uint64]*Term{}, frozen: true}
	for i := 0; i < len(s.c); i++ {
		n.m[uint64(i)] = p.tt.Const(BV8, uint64(s.c[i]))
	}
	return n, p.tt.U64(0), p.tt.U64(uint64(len(s.c)))
}

func (p *Path) strByte(s Str, i *Term) *Term {
	if s.sym == nil && i.IsConst() {
		return p.tt.Const(BV8, uint64(s.c[i.C]))
	}
	node, off, _ := p.strNode(s)
	return p.arrRead(node, p.tt.Bin(OAdd, off, i), BV8)
}

// mkStr builds a string from a node; makes it concrete if possible.
func (p *Path) mkStr(node *ANode, off, n *Term) Str {
	if n.IsConst() && off.IsConst() && n.C <= 1<<16 {
		buf := make([]byte, n.C)
		allc := true
		for i := uint64(0); i < n.C; i++ {
			t := p.arrRead(node, p.tt.U64(off.C+i), BV8)
			if !t.IsConst() {
				allc = false
				break
			}
			buf[i] = byte(t.C)
		}
		if allc {
			return Str{c: string(buf)}
		}
	}
	return Str{sym: &SymStr{node: node, off: off, n: n}}
}

func (p *Path) bytesToStr(b BSlice) Str {
	if b.arr == nil {
		return Str{}
	}
	freeze(b.arr.head)
	return p.mkStr(b.arr.head, b.off, b.n)
}

func (p *Path) strToBytes(s Str) BSlice {
	n := p.strLen(s)
	arr := &Arr{elem: BV8, n: n, head: &ANode{kind: aZero}}
	if s.sym == nil {
		if len(s.c) > 0 {
			l := &ANode{kind: aLayer, prev: arr.head, m: map[uint64]*Term{}}
			for i := 0; i < len(s.c); i++ {
				l.m[uint64(i)] = p.tt.Const(BV8, uint64(s.c[i]))
			}
			arr.head = l
		}
	} else {
		arr.head = &ANode{kind: aCopy, prev: arr.head, dOff: p.tt.U64(0), cnt: n, src: s.sym.node, sOff: s.sym.off}
	}
	return BSlice{arr: arr, off: p.tt.U64(0), n: n, cap: n}
}

func (p *Path) strConcat(a, b Str) Str {
	if a.sym == nil && b.sym == nil {
		return Str{c: a.c + b.c}
	}
	if a.sym == nil && a.c == "" {
		return b
	}
	if b.sym == nil && b.c == "" {
		return a
	}
	an, aoff, alen := p.strNode(a)
	bn, boff, blen := p.strNode(b)
	tt := p.tt
	total := tt.Bin(OAdd, alen, blen)
	n1 := &ANode{kind: aCopy, prev: &ANode{kind: aZero}, dOff: tt.U64(0), cnt: alen, src: an, sOff: aoff}
	n2 := &ANode{kind: aCopy, prev: n1, dOff: alen, cnt: blen, src: bn, sOff: boff}
	return Str{sym: &SymStr{node: n2, off: tt.U64(0), n: total}}
}

func (p *Path) strEq(a, b Str) *Term {
	tt := p.tt
	if a.sym == nil && b.sym == nil {
		return tt.BoolC(a.c == b.c)
	}
	la, lb := p.strLen(a), p.strLen(b)
	r := tt.Eq(la, lb)
	if r.IsFalse() {
		return r
	}
	var n uint64
	switch {
	case la.IsConst():
		n = la.C
	case lb.IsConst():
		n = lb.C
	default:
		// both symbolic lengths: concretise one
		n = p.concretize(la, "string length for comparison")
		r = tt.Eq(tt.U64(n), lb)
	}
	if n > 4096 {
		p.unsupported("comparison of long symbolic strings")
	}
	for i := uint64(0); i < n; i++ {
		ix := tt.U64(i)
		r = tt.And(r, tt.Eq(p.strByte(a, ix), p.strByte(b, ix)))
		if r.IsFalse() {
			break
		}
	}
	return r
}

func (p *Path) strSlice(fr *Frame, s Str, lo, hi *Term) Str {
	tt := p.tt
	n := p.strLen(s)
	if hi == nil {
		hi = n
	}
	if lo == nil {
		lo = tt.U64(0)
	}
	p.boundsCheck(fr, tt.And(tt.Cmp(OSle, tt.U64(0), lo), tt.And(tt.Cmp(OSle, lo, hi), tt.Cmp(OSle, hi, n))), "slice bounds out of range (string)")
	if s.sym == nil && lo.IsConst() && hi.IsConst() {
		return Str{c: s.c[lo.C:hi.C]}
	}
	node, off, _ := p.strNode(s)
	return p.mkStr(node, tt.Bin(OAdd, off, lo), tt.Bin(OSub, hi, lo))
}

func (p *Path) boundsCheck(fr *Frame, ok *Term, msg string) {
	if ok.IsTrue() {
		return
	}
	if !p.branch(ok) {
		p.rtPanic(fr, msg)
	}
}

// concLen concretises a length term.
func (p *Path) concLen(n *Term, what string) int {
	v := p.concretize(n, what)
	if v > 1<<24 {
		p.unsupported("huge concrete length %d for %s", v, what)
	}
	return int(v)
}

func decodeRune(s string) (rune, int) { return utf8.DecodeRuneInString(s) }
