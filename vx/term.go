package main

// Term DAG: hash-consed, constant-folding, SMT-LIB2 printable, concretely evaluable.

import (
	"fmt"
	"math"
	"math/bits"
	"sort"
	"strconv"
	"strings"
)

type SortKind uint8

const (
	SBool SortKind = iota
	SBV
	SFP
)

type Sort struct {
	K SortKind
	W int // bit width (BV: 8/16/32/64, FP: 32/64)
}

var (
	Bool  = Sort{SBool, 1}
	BV8   = Sort{SBV, 8}
	BV16  = Sort{SBV, 16}
	BV32  = Sort{SBV, 32}
	BV64  = Sort{SBV, 64}
	FP32  = Sort{SFP, 32}
	FP64  = Sort{SFP, 64}
)

func BV(w int) Sort { return Sort{SBV, w} }

func (s Sort) SMT() string {
	switch s.K {
	case SBool:
		return "Bool"
	case SBV:
		return fmt.Sprintf("(_ BitVec %d)", s.W)
	default:
		if s.W == 32 {
			return "(_ FloatingPoint 8 24)"
		}
		return "(_ FloatingPoint 11 53)"
	}
}

type Op uint8

const (
	OConst Op = iota
	OVar
	OApp // uninterpreted function application: name(args[0]) : BV64 -> sort
	OAdd
	OSub
	OMul
	OUDiv
	OURem
	OSDiv
	OSRem
	OAnd
	OOr
	OXor
	ONot // bitwise not
	ONeg
	OShl
	OLShr
	OAShr
	OEq
	OUlt
	OUle
	OSlt
	OSle
	OZext
	OSext
	OTrunc // extract low W bits
	OIte
	OBAnd
	OBOr
	OBNot
	// floating point
	OFAdd
	OFSub
	OFMul
	OFDiv
	OFNeg
	OFLt
	OFLe
	OFEq
	OFFromS // signed bv -> fp
	OFFromU // unsigned bv -> fp
	OFToS   // fp -> signed bv (RTZ)
	OFToU   // fp -> unsigned bv (RTZ)
	OFToFP  // fp -> fp (width change)
	OFBits  // reinterpret bv as fp (from constant bits) -- only used for printing constants
)

var opSMT = map[Op]string{
	OAdd: "bvadd", OSub: "bvsub", OMul: "bvmul", OUDiv: "bvudiv", OURem: "bvurem", OSDiv: "bvsdiv", OSRem: "bvsrem",
	OAnd: "bvand", OOr: "bvor", OXor: "bvxor", ONot: "bvnot", ONeg: "bvneg", OShl: "bvshl", OLShr: "bvlshr", OAShr: "bvashr",
	OEq: "=", OUlt: "bvult", OUle: "bvule", OSlt: "bvslt", OSle: "bvsle", OIte: "ite", OBAnd: "and", OBOr: "or", OBNot: "not",
	OFLt: "fp.lt", OFLe: "fp.leq", OFEq: "fp.eq", OFNeg: "fp.neg",
}

type Term struct {
	Op   Op
	S    Sort
	Args []*Term
	C    uint64 // constant payload (BV value masked to width; Bool 0/1; FP: IEEE bits)
	Name string // var / UF name
	ID   int
	vars map[string]bool // lazily computed set of free input names (nil for const)
}

func (t *Term) IsConst() bool { return t.Op == OConst }
func (t *Term) IsTrue() bool  { return t.Op == OConst && t.S.K == SBool && t.C == 1 }
func (t *Term) IsFalse() bool { return t.Op == OConst && t.S.K == SBool && t.C == 0 }

// TermTable: per-path hash-consing table.
type TermTable struct {
	tab  map[string]*Term
	next int
	// all declared vars / ufs in creation order
	Vars []*Term
	UFs  map[string]Sort // name -> result sort
	UFOrder []string
	Apps []*Term // every OApp term created (for model extraction)
	Subst map[*Term]*Term // leaves (UF applications) known to equal a constant on this path
	noNorm bool
}

func NewTermTable() *TermTable {
	return &TermTable{tab: map[string]*Term{}, UFs: map[string]Sort{}, Subst: map[*Term]*Term{}}
}

func mask(w int) uint64 {
	if w >= 64 {
		return ^uint64(0)
	}
	return (uint64(1) << uint(w)) - 1
}

func signExt(v uint64, w int) int64 {
	if w >= 64 {
		return int64(v)
	}
	sh := uint(64 - w)
	return int64(v<<sh) >> sh
}

func (tt *TermTable) intern(t *Term) *Term {
	var sb strings.Builder
	sb.WriteByte(byte(t.Op))
	sb.WriteByte(byte(t.S.K))
	sb.WriteByte(byte(t.S.W))
	switch t.Op {
	case OConst:
		sb.WriteString(strconv.FormatUint(t.C, 16))
	case OVar:
		sb.WriteString(t.Name)
	case OApp:
		sb.WriteString(t.Name)
		sb.WriteByte('|')
	}
	for _, a := range t.Args {
		sb.WriteString(strconv.Itoa(a.ID))
		sb.WriteByte(',')
	}
	k := sb.String()
	if e, ok := tt.tab[k]; ok {
		return e
	}
	tt.next++
	t.ID = tt.next
	tt.tab[k] = t
	if t.Op == OApp {
		tt.Apps = append(tt.Apps, t)
	}
	return t
}

func (tt *TermTable) Const(s Sort, v uint64) *Term {
	if s.K == SBV {
		v &= mask(s.W)
	} else if s.K == SBool {
		v &= 1
	}
	return tt.intern(&Term{Op: OConst, S: s, C: v})
}

func (tt *TermTable) True() *Term  { return tt.Const(Bool, 1) }
func (tt *TermTable) False() *Term { return tt.Const(Bool, 0) }
func (tt *TermTable) BoolC(b bool) *Term {
	if b {
		return tt.True()
	}
	return tt.False()
}

func (tt *TermTable) FConst(s Sort, f float64) *Term {
	if s.W == 32 {
		return tt.intern(&Term{Op: OConst, S: s, C: uint64(math.Float32bits(float32(f)))})
	}
	return tt.intern(&Term{Op: OConst, S: s, C: math.Float64bits(f)})
}

func (t *Term) FVal() float64 {
	if t.S.W == 32 {
		return float64(math.Float32frombits(uint32(t.C)))
	}
	return math.Float64frombits(t.C)
}

func (tt *TermTable) Var(name string, s Sort) *Term {
	t := tt.intern(&Term{Op: OVar, S: s, Name: name})
	if len(tt.Vars) == 0 || tt.Vars[len(tt.Vars)-1] != t {
		found := false
		for _, v := range tt.Vars {
			if v == t {
				found = true
				break
			}
		}
		if !found {
			tt.Vars = append(tt.Vars, t)
		}
	}
	return t
}

func (tt *TermTable) App(name string, res Sort, idx *Term) *Term {
	if _, ok := tt.UFs[name]; !ok {
		tt.UFs[name] = res
		tt.UFOrder = append(tt.UFOrder, name)
	}
	t := tt.intern(&Term{Op: OApp, S: res, Name: name, Args: []*Term{idx}})
	if c, ok := tt.Subst[t]; ok {
		return c
	}
	return t
}

func (tt *TermTable) mk(op Op, s Sort, args ...*Term) *Term {
	return tt.intern(&Term{Op: op, S: s, Args: args})
}

// ---------- BV arithmetic with folding ----------

func foldBV(op Op, w int, a, b uint64) (uint64, bool) {
	m := mask(w)
	switch op {
	case OAdd:
		return (a + b) & m, true
	case OSub:
		return (a - b) & m, true
	case OMul:
		return (a * b) & m, true
	case OUDiv:
		if b == 0 {
			return m, true
		}
		return a / b, true
	case OURem:
		if b == 0 {
			return a, true
		}
		return a % b, true
	case OSDiv:
		if b == 0 {
			return 0, false
		}
		sa, sb := signExt(a, w), signExt(b, w)
		if sb == -1 {
			return uint64(-sa) & m, true
		}
		return uint64(sa/sb) & m, true
	case OSRem:
		if b == 0 {
			return 0, false
		}
		sa, sb := signExt(a, w), signExt(b, w)
		if sb == -1 {
			return 0, true
		}
		return uint64(sa%sb) & m, true
	case OAnd:
		return a & b, true
	case OOr:
		return a | b, true
	case OXor:
		return a ^ b, true
	case OShl:
		if b >= uint64(w) {
			return 0, true
		}
		return (a << b) & m, true
	case OLShr:
		if b >= uint64(w) {
			return 0, true
		}
		return a >> b, true
	case OAShr:
		sa := signExt(a, w)
		if b >= uint64(w) {
			b = uint64(w - 1)
		}
		return uint64(sa>>b) & m, true
	}
	return 0, false
}

func (tt *TermTable) Bin(op Op, a, b *Term) *Term {
	if a.S != b.S {
		panic(fmt.Sprintf("Bin sort mismatch %v %v op %d", a.S, b.S, op))
	}
	s := a.S
	if a.IsConst() && b.IsConst() {
		if v, ok := foldBV(op, s.W, a.C, b.C); ok {
			return tt.Const(s, v)
		}
	}
	if (op == OAdd || op == OSub) && s.K == SBV && !tt.noNorm {
		if r := tt.normSum(op, a, b); r != nil {
			return r
		}
	}
	// canonicalise commutative: const on the right
	switch op {
	case OAdd, OMul, OAnd, OOr, OXor:
		if a.IsConst() && !b.IsConst() {
			a, b = b, a
		}
	}
	if b.IsConst() {
		c := b.C
		switch op {
		case OAdd, OSub, OOr, OXor, OShl, OLShr, OAShr:
			if c == 0 {
				return a
			}
		case OMul:
			if c == 0 {
				return b
			}
			if c == 1 {
				return a
			}
		case OUDiv, OSDiv:
			if c == 1 {
				return a
			}
		case OAnd:
			if c == 0 {
				return b
			}
			if c == mask(s.W) {
				return a
			}
		}
		// (x + c1) + c2 -> x + (c1+c2) ; (x + c1) - c2 ; (x - c1) + c2 ...
		if (op == OAdd || op == OSub) && (a.Op == OAdd || a.Op == OSub) && a.Args[1].IsConst() {
			c1 := a.Args[1].C
			if a.Op == OSub {
				c1 = -c1
			}
			c2 := c
			if op == OSub {
				c2 = -c2
			}
			return tt.Bin(OAdd, a.Args[0], tt.Const(s, c1+c2))
		}
		if op == OSub {
			// x - c -> x + (-c)  (canonical)
			return tt.Bin(OAdd, a, tt.Const(s, -c))
		}
	}
	if a.IsConst() && a.C == 0 {
		switch op {
		case OShl, OLShr, OAShr, OUDiv, OURem:
			if op != OUDiv && op != OURem {
				return a
			}
		}
	}
	if a == b {
		switch op {
		case OSub, OXor:
			return tt.Const(s, 0)
		case OAnd, OOr:
			return a
		}
	}
	// (x + c) - x  -> c ; (x + y) - x -> y
	if op == OSub && a.Op == OAdd {
		if a.Args[0] == b {
			return a.Args[1]
		}
		if a.Args[1] == b {
			return a.Args[0]
		}
	}
	// x - (x + c) -> -c
	if op == OSub && b.Op == OAdd && b.Args[0] == a && b.Args[1].IsConst() {
		return tt.Const(s, -b.Args[1].C)
	}
	// (x+c1) - (x+c2)
	if op == OSub && a.Op == OAdd && b.Op == OAdd && a.Args[0] == b.Args[0] && a.Args[1].IsConst() && b.Args[1].IsConst() {
		return tt.Const(s, a.Args[1].C-b.Args[1].C)
	}
	// ite lifting when both branches constant and other operand constant
	if b.IsConst() && a.Op == OIte && a.Args[1].IsConst() && a.Args[2].IsConst() {
		return tt.Ite(a.Args[0], tt.Bin(op, a.Args[1], b), tt.Bin(op, a.Args[2], b))
	}
	if a.IsConst() && b.Op == OIte && b.Args[1].IsConst() && b.Args[2].IsConst() {
		return tt.Ite(b.Args[0], tt.Bin(op, a, b.Args[1]), tt.Bin(op, a, b.Args[2]))
	}
	return tt.mk(op, s, a, b)
}

func (tt *TermTable) Un(op Op, a *Term) *Term {
	if a.IsConst() {
		switch op {
		case ONot:
			return tt.Const(a.S, ^a.C)
		case ONeg:
			return tt.Const(a.S, -a.C)
		}
	}
	if a.Op == op && (op == ONot || op == ONeg) {
		return a.Args[0]
	}
	return tt.mk(op, a.S, a)
}

// ---------- comparisons ----------

func (tt *TermTable) Eq(a, b *Term) *Term {
	if a.S != b.S {
		panic(fmt.Sprintf("Eq sort mismatch %v %v", a.S, b.S))
	}
	if a == b {
		if a.S.K == SFP {
			// NaN != NaN; only fold for consts
			if a.IsConst() {
				f := a.FVal()
				return tt.BoolC(f == f)
			}
		} else {
			return tt.True()
		}
	}
	if a.S.K == SFP {
		if a.IsConst() && b.IsConst() {
			return tt.BoolC(a.FVal() == b.FVal())
		}
		return tt.mk(OFEq, Bool, a, b)
	}
	if a.IsConst() && b.IsConst() {
		return tt.BoolC(a.C == b.C)
	}
	if a.IsConst() {
		a, b = b, a
	}
	if a.S.K == SBool {
		if b.IsConst() {
			if b.C == 1 {
				return a
			}
			return tt.Not(a)
		}
		return tt.mk(OEq, Bool, a, b)
	}
	if b.IsConst() {
		// ite(c,k1,k2) == k
		if a.Op == OIte {
			x, y := a.Args[1], a.Args[2]
			if x.IsConst() || y.IsConst() {
				return tt.Ite(a.Args[0], tt.Eq(x, b), tt.Eq(y, b))
			}
		}
		// (x + c1) == c2 -> x == c2-c1
		if a.Op == OAdd && a.Args[1].IsConst() {
			return tt.Eq(a.Args[0], tt.Const(a.S, b.C-a.Args[1].C))
		}
		// zext(x) == c
		if a.Op == OZext {
			in := a.Args[0]
			if b.C > mask(in.S.W) {
				return tt.False()
			}
			return tt.Eq(in, tt.Const(in.S, b.C))
		}
	}
	if a.ID > b.ID && !b.IsConst() {
		a, b = b, a
	}
	return tt.mk(OEq, Bool, a, b)
}

func (tt *TermTable) Cmp(op Op, a, b *Term) *Term {
	if a.S != b.S {
		panic(fmt.Sprintf("Cmp sort mismatch %v %v", a.S, b.S))
	}
	w := a.S.W
	if a.IsConst() && b.IsConst() {
		switch op {
		case OUlt:
			return tt.BoolC(a.C < b.C)
		case OUle:
			return tt.BoolC(a.C <= b.C)
		case OSlt:
			return tt.BoolC(signExt(a.C, w) < signExt(b.C, w))
		case OSle:
			return tt.BoolC(signExt(a.C, w) <= signExt(b.C, w))
		}
	}
	if a == b {
		return tt.BoolC(op == OUle || op == OSle)
	}
	switch op {
	case OUlt:
		if b.IsConst() && b.C == 0 {
			return tt.False()
		}
		if a.IsConst() && a.C == mask(w) {
			return tt.False()
		}
		if b.IsConst() && b.C == 1 {
			return tt.Eq(a, tt.Const(a.S, 0))
		}
	case OUle:
		if a.IsConst() && a.C == 0 {
			return tt.True()
		}
		if b.IsConst() && b.C == mask(w) {
			return tt.True()
		}
		if b.IsConst() && b.C == 0 {
			return tt.Eq(a, b)
		}
	}
	// zext(x) vs const / zext(y)
	if op == OUlt || op == OUle {
		if a.Op == OZext && b.IsConst() {
			in := a.Args[0]
			if b.C > mask(in.S.W) {
				return tt.True()
			}
			return tt.Cmp(op, in, tt.Const(in.S, b.C))
		}
		if b.Op == OZext && a.IsConst() {
			in := b.Args[0]
			if a.C > mask(in.S.W) {
				return tt.False()
			}
			return tt.Cmp(op, tt.Const(in.S, a.C), in)
		}
		if a.Op == OZext && b.Op == OZext && a.Args[0].S == b.Args[0].S {
			return tt.Cmp(op, a.Args[0], b.Args[0])
		}
	}
	if op == OSlt || op == OSle {
		// zext is nonnegative
		if a.Op == OZext && b.IsConst() && a.Args[0].S.W < w {
			in := a.Args[0]
			sb := signExt(b.C, w)
			if sb < 0 {
				return tt.False()
			}
			if uint64(sb) > mask(in.S.W) {
				return tt.True()
			}
			uop := OUlt
			if op == OSle {
				uop = OUle
			}
			return tt.Cmp(uop, in, tt.Const(in.S, uint64(sb)))
		}
		if b.Op == OZext && a.IsConst() && b.Args[0].S.W < w {
			in := b.Args[0]
			sa := signExt(a.C, w)
			if sa < 0 {
				return tt.True()
			}
			if uint64(sa) > mask(in.S.W) {
				return tt.False()
			}
			uop := OUlt
			if op == OSle {
				uop = OUle
			}
			return tt.Cmp(uop, tt.Const(in.S, uint64(sa)), in)
		}
		if a.Op == OZext && b.Op == OZext && a.Args[0].S == b.Args[0].S && a.Args[0].S.W < w {
			uop := OUlt
			if op == OSle {
				uop = OUle
			}
			return tt.Cmp(uop, a.Args[0], b.Args[0])
		}
	}
	// ite with constant branches vs const
	if b.IsConst() && a.Op == OIte && a.Args[1].IsConst() && a.Args[2].IsConst() {
		return tt.Ite(a.Args[0], tt.Cmp(op, a.Args[1], b), tt.Cmp(op, a.Args[2], b))
	}
	if a.IsConst() && b.Op == OIte && b.Args[1].IsConst() && b.Args[2].IsConst() {
		return tt.Ite(b.Args[0], tt.Cmp(op, a, b.Args[1]), tt.Cmp(op, a, b.Args[2]))
	}
	return tt.mk(op, Bool, a, b)
}

// ---------- booleans ----------

func (tt *TermTable) Not(a *Term) *Term {
	if a.IsConst() {
		return tt.BoolC(a.C == 0)
	}
	if a.Op == OBNot {
		return a.Args[0]
	}
	return tt.mk(OBNot, Bool, a)
}

func (tt *TermTable) And(a, b *Term) *Term {
	if a.IsFalse() || b.IsFalse() {
		return tt.False()
	}
	if a.IsTrue() {
		return b
	}
	if b.IsTrue() {
		return a
	}
	if a == b {
		return a
	}
	if (a.Op == OBNot && a.Args[0] == b) || (b.Op == OBNot && b.Args[0] == a) {
		return tt.False()
	}
	return tt.mk(OBAnd, Bool, a, b)
}

func (tt *TermTable) Or(a, b *Term) *Term {
	if a.IsTrue() || b.IsTrue() {
		return tt.True()
	}
	if a.IsFalse() {
		return b
	}
	if b.IsFalse() {
		return a
	}
	if a == b {
		return a
	}
	if (a.Op == OBNot && a.Args[0] == b) || (b.Op == OBNot && b.Args[0] == a) {
		return tt.True()
	}
	return tt.mk(OBOr, Bool, a, b)
}

func (tt *TermTable) Ite(c, a, b *Term) *Term {
	if c.IsTrue() {
		return a
	}
	if c.IsFalse() {
		return b
	}
	if a == b {
		return a
	}
	if a.S != b.S {
		panic(fmt.Sprintf("Ite sort mismatch %v %v", a.S, b.S))
	}
	if a.S.K == SBool {
		if a.IsTrue() && b.IsFalse() {
			return c
		}
		if a.IsFalse() && b.IsTrue() {
			return tt.Not(c)
		}
		if a.IsTrue() {
			return tt.Or(c, b)
		}
		if a.IsFalse() {
			return tt.And(tt.Not(c), b)
		}
		if b.IsTrue() {
			return tt.Or(tt.Not(c), a)
		}
		if b.IsFalse() {
			return tt.And(c, a)
		}
	}
	if c.Op == OBNot {
		return tt.Ite(c.Args[0], b, a)
	}
	// ite(c, x, ite(c, y, z)) -> ite(c,x,z)
	if b.Op == OIte && b.Args[0] == c {
		return tt.Ite(c, a, b.Args[2])
	}
	if a.Op == OIte && a.Args[0] == c {
		return tt.Ite(c, a.Args[1], b)
	}
	return tt.mk(OIte, a.S, c, a, b)
}

// ---------- width conversions ----------

func (tt *TermTable) Zext(a *Term, w int) *Term {
	if a.S.W == w {
		return a
	}
	if a.S.W > w {
		return tt.Trunc(a, w)
	}
	if a.IsConst() {
		return tt.Const(BV(w), a.C)
	}
	if a.Op == OZext {
		return tt.Zext(a.Args[0], w)
	}
	if a.Op == OIte && a.Args[1].IsConst() && a.Args[2].IsConst() {
		return tt.Ite(a.Args[0], tt.Zext(a.Args[1], w), tt.Zext(a.Args[2], w))
	}
	return tt.mk(OZext, BV(w), a)
}

func (tt *TermTable) Sext(a *Term, w int) *Term {
	if a.S.W == w {
		return a
	}
	if a.S.W > w {
		return tt.Trunc(a, w)
	}
	if a.IsConst() {
		return tt.Const(BV(w), uint64(signExt(a.C, a.S.W)))
	}
	if a.Op == OZext && a.Args[0].S.W < a.S.W {
		return tt.Zext(a.Args[0], w)
	}
	if a.Op == OIte && a.Args[1].IsConst() && a.Args[2].IsConst() {
		return tt.Ite(a.Args[0], tt.Sext(a.Args[1], w), tt.Sext(a.Args[2], w))
	}
	return tt.mk(OSext, BV(w), a)
}

func (tt *TermTable) Trunc(a *Term, w int) *Term {
	if a.S.W == w {
		return a
	}
	if a.S.W < w {
		panic("Trunc widening")
	}
	if a.IsConst() {
		return tt.Const(BV(w), a.C)
	}
	if (a.Op == OZext || a.Op == OSext) && a.Args[0].S.W <= w {
		if a.Args[0].S.W == w {
			return a.Args[0]
		}
		if a.Op == OZext {
			return tt.Zext(a.Args[0], w)
		}
		return tt.Sext(a.Args[0], w)
	}
	if a.Op == OIte && a.Args[1].IsConst() && a.Args[2].IsConst() {
		return tt.Ite(a.Args[0], tt.Trunc(a.Args[1], w), tt.Trunc(a.Args[2], w))
	}
	return tt.mk(OTrunc, BV(w), a)
}

// ---------- floating point ----------

func (tt *TermTable) FBin(op Op, a, b *Term) *Term {
	if a.IsConst() && b.IsConst() {
		x, y := a.FVal(), b.FVal()
		if a.S.W == 32 {
			x32, y32 := float32(x), float32(y)
			var r float32
			switch op {
			case OFAdd:
				r = x32 + y32
			case OFSub:
				r = x32 - y32
			case OFMul:
				r = x32 * y32
			case OFDiv:
				r = x32 / y32
			}
			return tt.FConst(a.S, float64(r))
		}
		var r float64
		switch op {
		case OFAdd:
			r = x + y
		case OFSub:
			r = x - y
		case OFMul:
			r = x * y
		case OFDiv:
			r = x / y
		}
		return tt.FConst(a.S, r)
	}
	return tt.mk(op, a.S, a, b)
}

func (tt *TermTable) FCmp(op Op, a, b *Term) *Term {
	if a.IsConst() && b.IsConst() {
		x, y := a.FVal(), b.FVal()
		switch op {
		case OFLt:
			return tt.BoolC(x < y)
		case OFLe:
			return tt.BoolC(x <= y)
		case OFEq:
			return tt.BoolC(x == y)
		}
	}
	return tt.mk(op, Bool, a, b)
}

func (tt *TermTable) FNeg(a *Term) *Term {
	if a.IsConst() {
		return tt.FConst(a.S, -a.FVal())
	}
	return tt.mk(OFNeg, a.S, a)
}

// int -> float
func (tt *TermTable) FFromInt(a *Term, signed bool, to Sort) *Term {
	if a.IsConst() {
		if signed {
			return tt.FConst(to, float64(signExt(a.C, a.S.W)))
		}
		return tt.FConst(to, float64(a.C))
	}
	if signed {
		return tt.mk(OFFromS, to, a)
	}
	return tt.mk(OFFromU, to, a)
}

// float -> int (Go semantics for in-range values; out of range is implementation-defined)
func (tt *TermTable) FToInt(a *Term, signed bool, w int) *Term {
	if a.IsConst() {
		f := a.FVal()
		if signed {
			return tt.Const(BV(w), uint64(int64(f)))
		}
		return tt.Const(BV(w), uint64(f))
	}
	if signed {
		return tt.mk(OFToS, BV(w), a)
	}
	return tt.mk(OFToU, BV(w), a)
}

func (tt *TermTable) FToFP(a *Term, to Sort) *Term {
	if a.S == to {
		return a
	}
	if a.IsConst() {
		return tt.FConst(to, a.FVal())
	}
	return tt.mk(OFToFP, to, a)
}

// ---------- helpers ----------

func (tt *TermTable) U64(v uint64) *Term { return tt.Const(BV64, v) }
func (tt *TermTable) I64(v int64) *Term  { return tt.Const(BV64, uint64(v)) }

func (t *Term) Int64() int64 { return signExt(t.C, t.S.W) }

// FreeVars returns names of vars and UFs occurring in t.
func (t *Term) FreeVars() map[string]bool {
	if t.vars != nil {
		return t.vars
	}
	m := map[string]bool{}
	switch t.Op {
	case OConst:
	case OVar:
		m[t.Name] = true
	default:
		if t.Op == OApp {
			m[t.Name] = true
		}
		for _, a := range t.Args {
			for k := range a.FreeVars() {
				m[k] = true
			}
		}
	}
	t.vars = m
	return m
}

// ---------- SMT printing ----------

func constSMT(t *Term) string {
	switch t.S.K {
	case SBool:
		if t.C == 1 {
			return "true"
		}
		return "false"
	case SBV:
		if t.S.W%4 == 0 {
			return fmt.Sprintf("#x%0*x", t.S.W/4, t.C)
		}
		return fmt.Sprintf("(_ bv%d %d)", t.C, t.S.W)
	default:
		if t.S.W == 32 {
			b := uint32(t.C)
			return fmt.Sprintf("(fp #b%b #b%08b #b%023b)", b>>31, (b>>23)&0xff, b&0x7fffff)
		}
		b := t.C
		return fmt.Sprintf("(fp #b%b #b%011b #b%052b)", b>>63, (b>>52)&0x7ff, b&((1<<52)-1))
	}
}

func smtName(n string) string { return "|" + n + "|" }

// Ref returns the SMT reference of t assuming it has been defined.
func (t *Term) Ref() string {
	switch t.Op {
	case OConst:
		return constSMT(t)
	case OVar:
		return smtName(t.Name)
	}
	return "t" + strconv.Itoa(t.ID)
}

// Body returns the SMT expression for t using refs of its args.
func (t *Term) Body() string {
	r := func(i int) string { return t.Args[i].Ref() }
	switch t.Op {
	case OApp:
		return "(" + smtName(t.Name) + " " + r(0) + ")"
	case OZext:
		return fmt.Sprintf("((_ zero_extend %d) %s)", t.S.W-t.Args[0].S.W, r(0))
	case OSext:
		return fmt.Sprintf("((_ sign_extend %d) %s)", t.S.W-t.Args[0].S.W, r(0))
	case OTrunc:
		return fmt.Sprintf("((_ extract %d 0) %s)", t.S.W-1, r(0))
	case OFAdd, OFSub, OFMul, OFDiv:
		n := map[Op]string{OFAdd: "fp.add", OFSub: "fp.sub", OFMul: "fp.mul", OFDiv: "fp.div"}[t.Op]
		return fmt.Sprintf("(%s RNE %s %s)", n, r(0), r(1))
	case OFFromS:
		return fmt.Sprintf("((_ to_fp %s) RNE %s)", fpIdx(t.S), r(0))
	case OFFromU:
		return fmt.Sprintf("((_ to_fp_unsigned %s) RNE %s)", fpIdx(t.S), r(0))
	case OFToS:
		return fmt.Sprintf("((_ fp.to_sbv %d) RTZ %s)", t.S.W, r(0))
	case OFToU:
		return fmt.Sprintf("((_ fp.to_ubv %d) RTZ %s)", t.S.W, r(0))
	case OFToFP:
		return fmt.Sprintf("((_ to_fp %s) RNE %s)", fpIdx(t.S), r(0))
	}
	name, ok := opSMT[t.Op]
	if !ok {
		panic(fmt.Sprintf("no SMT for op %d", t.Op))
	}
	var sb strings.Builder
	sb.WriteByte('(')
	sb.WriteString(name)
	for i := range t.Args {
		sb.WriteByte(' ')
		sb.WriteString(r(i))
	}
	sb.WriteByte(')')
	return sb.String()
}

func fpIdx(s Sort) string {
	if s.W == 32 {
		return "8 24"
	}
	return "11 53"
}

// ---------- concrete evaluation under a model ----------

type Model struct {
	Vars map[string]uint64
	UFs  map[string]map[uint64]uint64 // sparse; default 0
}

func (m *Model) Eval(t *Term, memo map[*Term]uint64) uint64 {
	if t.Op == OConst {
		return t.C
	}
	if v, ok := memo[t]; ok {
		return v
	}
	var v uint64
	a := func(i int) uint64 { return m.Eval(t.Args[i], memo) }
	w := t.S.W
	switch t.Op {
	case OVar:
		v = m.Vars[t.Name]
	case OApp:
		v = m.UFs[t.Name][a(0)]
	case OAdd, OSub, OMul, OUDiv, OURem, OAnd, OOr, OXor, OShl, OLShr, OAShr:
		v, _ = foldBV(t.Op, w, a(0), a(1))
	case OSDiv, OSRem:
		x, y := a(0), a(1)
		if y == 0 {
			// SMT semantics: sdiv by 0 = (x<0 ? 1 : -1), srem by 0 = x
			if t.Op == OSRem {
				v = x
			} else if signExt(x, w) < 0 {
				v = 1
			} else {
				v = mask(w)
			}
		} else {
			v, _ = foldBV(t.Op, w, x, y)
		}
	case ONot:
		v = ^a(0) & mask(w)
	case ONeg:
		v = (-a(0)) & mask(w)
	case OEq:
		if a(0) == a(1) {
			v = 1
		}
	case OUlt:
		if a(0) < a(1) {
			v = 1
		}
	case OUle:
		if a(0) <= a(1) {
			v = 1
		}
	case OSlt:
		ww := t.Args[0].S.W
		if signExt(a(0), ww) < signExt(a(1), ww) {
			v = 1
		}
	case OSle:
		ww := t.Args[0].S.W
		if signExt(a(0), ww) <= signExt(a(1), ww) {
			v = 1
		}
	case OZext:
		v = a(0)
	case OSext:
		v = uint64(signExt(a(0), t.Args[0].S.W)) & mask(w)
	case OTrunc:
		v = a(0) & mask(w)
	case OIte:
		if a(0) == 1 {
			v = a(1)
		} else {
			v = a(2)
		}
	case OBAnd:
		v = a(0) & a(1)
	case OBOr:
		v = a(0) | a(1)
	case OBNot:
		v = 1 - a(0)
	case OFAdd, OFSub, OFMul, OFDiv:
		x, y := fbits(t.Args[0].S, a(0)), fbits(t.Args[1].S, a(1))
		var r float64
		if t.S.W == 32 {
			x32, y32 := float32(x), float32(y)
			var r32 float32
			switch t.Op {
			case OFAdd:
				r32 = x32 + y32
			case OFSub:
				r32 = x32 - y32
			case OFMul:
				r32 = x32 * y32
			case OFDiv:
				r32 = x32 / y32
			}
			r = float64(r32)
		} else {
			switch t.Op {
			case OFAdd:
				r = x + y
			case OFSub:
				r = x - y
			case OFMul:
				r = x * y
			case OFDiv:
				r = x / y
			}
		}
		v = tobits(t.S, r)
	case OFNeg:
		v = tobits(t.S, -fbits(t.Args[0].S, a(0)))
	case OFLt, OFLe, OFEq:
		x, y := fbits(t.Args[0].S, a(0)), fbits(t.Args[1].S, a(1))
		var b bool
		switch t.Op {
		case OFLt:
			b = x < y
		case OFLe:
			b = x <= y
		case OFEq:
			b = x == y
		}
		if b {
			v = 1
		}
	case OFFromS:
		v = tobits(t.S, float64(signExt(a(0), t.Args[0].S.W)))
	case OFFromU:
		v = tobits(t.S, float64(a(0)))
	case OFToS:
		v = uint64(int64(fbits(t.Args[0].S, a(0)))) & mask(w)
	case OFToU:
		v = uint64(fbits(t.Args[0].S, a(0))) & mask(w)
	case OFToFP:
		v = tobits(t.S, fbits(t.Args[0].S, a(0)))
	default:
		panic(fmt.Sprintf("eval: op %d", t.Op))
	}
	memo[t] = v
	return v
}

func fbits(s Sort, b uint64) float64 {
	if s.W == 32 {
		return float64(math.Float32frombits(uint32(b)))
	}
	return math.Float64frombits(b)
}
func tobits(s Sort, f float64) uint64 {
	if s.W == 32 {
		return uint64(math.Float32bits(float32(f)))
	}
	return math.Float64bits(f)
}

var _ = bits.Len64

// normSum canonicalises sums and differences of bit-vector terms: (x + (y + 3)) - y  ==>  x + 3.
// Atoms are sorted by ID so that syntactically different association orders of the same sum
// become the same term (which lets index comparisons such as base+off+j == base+(off+j) fold).
func (tt *TermTable) normSum(op Op, a, b *Term) *Term {
	var pos, neg []*Term
	var c uint64
	n := 0
	var walk func(t *Term, sign bool)
	walk = func(t *Term, sign bool) {
		n++
		if n > 64 {
			return
		}
		switch {
		case t.IsConst():
			if sign {
				c += t.C
			} else {
				c -= t.C
			}
		case t.Op == OAdd:
			walk(t.Args[0], sign)
			walk(t.Args[1], sign)
		case t.Op == OSub:
			walk(t.Args[0], sign)
			walk(t.Args[1], !sign)
		case t.Op == ONeg:
			walk(t.Args[0], !sign)
		default:
			if sign {
				pos = append(pos, t)
			} else {
				neg = append(neg, t)
			}
		}
	}
	walk(a, true)
	walk(b, op == OAdd)
	if n > 64 {
		return nil
	}
	// cancel
	for i := 0; i < len(pos); i++ {
		for j := 0; j < len(neg); j++ {
			if pos[i] != nil && neg[j] != nil && pos[i] == neg[j] {
				pos[i], neg[j] = nil, nil
				break
			}
		}
	}
	compact := func(l []*Term) []*Term {
		o := l[:0]
		for _, t := range l {
			if t != nil {
				o = append(o, t)
			}
		}
		sort.Slice(o, func(i, j int) bool { return o[i].ID < o[j].ID })
		return o
	}
	pos, neg = compact(pos), compact(neg)
	s := a.S
	tt.noNorm = true
	defer func() { tt.noNorm = false }()
	var r *Term
	for _, t := range pos {
		if r == nil {
			r = t
		} else {
			r = tt.mk(OAdd, s, r, t)
		}
	}
	for _, t := range neg {
		if r == nil {
			r = tt.Un(ONeg, t)
		} else {
			r = tt.mk(OSub, s, r, t)
		}
	}
	cc := tt.Const(s, c)
	if r == nil {
		return cc
	}
	if cc.C == 0 {
		return r
	}
	return tt.mk(OAdd, s, r, cc)
}
