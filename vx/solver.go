package main

// Persistent SMT solver processes speaking SMT-LIB2 over pipes.

import (
	"bufio"
	"fmt"
	"io"
	"os/exec"
	"strconv"
	"strings"
	"time"
)

type SolverKind string

const (
	SolverZ3      SolverKind = "z3"
	SolverZ3New   SolverKind = "z3-new"
	SolverCVC5    SolverKind = "cvc5"
	SolverCVC5Int SolverKind = "cvc5-int"
)

type Solver struct {
	kind    SolverKind
	cmd     *exec.Cmd
	in      io.WriteCloser
	out     *bufio.Reader
	timeout int // ms per query
	log     io.Writer
	Queries int
	Time    time.Duration
	dead    bool
	errSeen string
}

func NewSolver(kind SolverKind, timeoutMs int) (*Solver, error) {
	var cmd *exec.Cmd
	switch kind {
	case SolverZ3:
		cmd = exec.Command("z3", "-in", "-smt2")
	case SolverZ3New:
		cmd = exec.Command("z3-new", "-in", "-smt2")
	case SolverCVC5:
		cmd = exec.Command("cvc5", "--incremental", "--lang=smt2", "--produce-models", fmt.Sprintf("--tlimit-per=%d", timeoutMs))
	case SolverCVC5Int:
		cmd = exec.Command("cvc5", "--incremental", "--lang=smt2", "--produce-models", "--solve-bv-as-int=sum", fmt.Sprintf("--tlimit-per=%d", timeoutMs))
	default:
		return nil, fmt.Errorf("unknown solver %s", kind)
	}
	in, err := cmd.StdinPipe()
	if err != nil {
		return nil, err
	}
	outp, err := cmd.StdoutPipe()
	if err != nil {
		return nil, err
	}
	cmd.Stderr = cmd.Stdout
	if err := cmd.Start(); err != nil {
		return nil, err
	}
	s := &Solver{kind: kind, cmd: cmd, in: in, out: bufio.NewReaderSize(outp, 1<<20), timeout: timeoutMs}
	s.preamble()
	return s, nil
}

func (s *Solver) preamble() {
	if s.kind == SolverZ3 || s.kind == SolverZ3New {
		s.Send("(set-option :produce-models true)")
	} else {
		s.Send("(set-logic ALL)")
	}
}

func (s *Solver) SetTimeout(ms int) {
	s.timeout = ms
}

func (s *Solver) Send(line string) {
	if s.log != nil {
		fmt.Fprintln(s.log, line)
	}
	if _, err := io.WriteString(s.in, line+"\n"); err != nil {
		s.dead = true
	}
}

func (s *Solver) Reset() {
	s.Send("(reset)")
	s.preamble()
}

func (s *Solver) Close() {
	s.in.Close()
	done := make(chan struct{})
	go func() { s.cmd.Wait(); close(done) }()
	select {
	case <-done:
	case <-time.After(2 * time.Second):
		s.cmd.Process.Kill()
	}
}

// Restart kills the process and starts a fresh one (used after a solver-side error left the
// incremental state unreliable).
func (s *Solver) Restart() error {
	s.in.Close()
	s.cmd.Process.Kill()
	s.cmd.Wait()
	n, err := NewSolver(s.kind, s.timeout)
	if err != nil {
		s.dead = true
		return err
	}
	n.log, n.Queries, n.Time = s.log, s.Queries, s.Time
	*s = *n
	return nil
}

// CheckSat issues (check-sat) and returns "sat", "unsat" or "unknown".
func (s *Solver) CheckSat() string {
	t0 := time.Now()
	if s.kind == SolverZ3 || s.kind == SolverZ3New {
		// the time limit is armed for the check only: a limit left armed can cancel a later push/assert
		// under load ("push canceled"), which desynchronises the incremental state
		s.Send(fmt.Sprintf("(set-option :timeout %d)", s.timeout))
		defer s.Send("(set-option :timeout 4294967295)")
	}
	s.Send("(check-sat)")
	s.Queries++
	for {
		line, err := s.out.ReadString('\n')
		if err != nil {
			s.dead = true
			s.errSeen = "solver died: " + err.Error()
			return "unknown"
		}
		line = strings.TrimSpace(line)
		if line == "" {
			continue
		}
		s.Time += time.Since(t0)
		switch line {
		case "sat", "unsat", "unknown":
			return line
		}
		if strings.HasPrefix(line, "(error") || strings.Contains(line, "error") {
			s.errSeen = line
			// keep reading until we get the answer line? the answer may never come; treat as unknown
			// z3 prints the error and then still answers check-sat; cvc5 aborts the command.
			if strings.Contains(line, "timeout") || strings.Contains(line, "interrupted") {
				return "unknown"
			}
			continue
		}
		if line == "timeout" {
			return "unknown"
		}
		// unexpected noise
		s.errSeen = "unexpected solver output: " + line
	}
}

// GetValues returns the values of the given SMT expressions (must evaluate to BV or Bool).
func (s *Solver) GetValues(exprs []string) ([]uint64, error) {
	res := make([]uint64, 0, len(exprs))
	const chunk = 200
	for i := 0; i < len(exprs); i += chunk {
		j := i + chunk
		if j > len(exprs) {
			j = len(exprs)
		}
		s.Send("(get-value (" + strings.Join(exprs[i:j], " ") + "))")
		txt, err := s.readSexp()
		if err != nil {
			return nil, err
		}
		vals, err := parseGetValue(txt, j-i)
		if err != nil {
			return nil, fmt.Errorf("%v in %q", err, txt)
		}
		res = append(res, vals...)
	}
	return res, nil
}

func (s *Solver) readSexp() (string, error) {
	var sb strings.Builder
	depth := 0
	started := false
	inBar := false
	for {
		b, err := s.out.ReadByte()
		if err != nil {
			s.dead = true
			return "", err
		}
		if !started {
			if b == '(' {
				started = true
				depth = 1
				sb.WriteByte(b)
			}
			continue
		}
		sb.WriteByte(b)
		if b == '|' {
			inBar = !inBar
		}
		if inBar {
			continue
		}
		if b == '(' {
			depth++
		} else if b == ')' {
			depth--
			if depth == 0 {
				out := sb.String()
				if strings.HasPrefix(out, "(error") {
					s.errSeen = out
					return "", fmt.Errorf("solver error: %s", out)
				}
				return out, nil
			}
		}
	}
}

// parseGetValue parses ((e1 v1) (e2 v2) ...) and returns the n values in order.
func parseGetValue(txt string, n int) ([]uint64, error) {
	p := &sx{s: txt}
	top, err := p.parse()
	if err != nil {
		return nil, err
	}
	if len(top.kids) != n {
		return nil, fmt.Errorf("expected %d pairs, got %d", n, len(top.kids))
	}
	out := make([]uint64, n)
	for i, k := range top.kids {
		if len(k.kids) != 2 {
			return nil, fmt.Errorf("bad pair")
		}
		v, err := sxValue(k.kids[1])
		if err != nil {
			return nil, err
		}
		out[i] = v
	}
	return out, nil
}

type sxNode struct {
	atom string
	kids []*sxNode
	list bool
}

type sx struct {
	s string
	i int
}

func (p *sx) skip() {
	for p.i < len(p.s) && (p.s[p.i] == ' ' || p.s[p.i] == '\n' || p.s[p.i] == '\t' || p.s[p.i] == '\r') {
		p.i++
	}
}

func (p *sx) parse() (*sxNode, error) {
	p.skip()
	if p.i >= len(p.s) {
		return nil, fmt.Errorf("eof")
	}
	if p.s[p.i] == '(' {
		p.i++
		n := &sxNode{list: true}
		for {
			p.skip()
			if p.i >= len(p.s) {
				return nil, fmt.Errorf("eof in list")
			}
			if p.s[p.i] == ')' {
				p.i++
				return n, nil
			}
			k, err := p.parse()
			if err != nil {
				return nil, err
			}
			n.kids = append(n.kids, k)
		}
	}
	st := p.i
	if p.s[p.i] == '|' {
		p.i++
		for p.i < len(p.s) && p.s[p.i] != '|' {
			p.i++
		}
		p.i++
		return &sxNode{atom: p.s[st:p.i]}, nil
	}
	for p.i < len(p.s) && !strings.ContainsRune(" \n\t\r()", rune(p.s[p.i])) {
		p.i++
	}
	return &sxNode{atom: p.s[st:p.i]}, nil
}

func sxValue(n *sxNode) (uint64, error) {
	if !n.list {
		a := n.atom
		switch {
		case a == "true":
			return 1, nil
		case a == "false":
			return 0, nil
		case strings.HasPrefix(a, "#x"):
			return strconv.ParseUint(a[2:], 16, 64)
		case strings.HasPrefix(a, "#b"):
			return strconv.ParseUint(a[2:], 2, 64)
		}
		return 0, fmt.Errorf("unparsable value atom %q", a)
	}
	// (_ bvN w)
	if len(n.kids) == 3 && n.kids[0].atom == "_" && strings.HasPrefix(n.kids[1].atom, "bv") {
		return strconv.ParseUint(n.kids[1].atom[2:], 10, 64)
	}
	// (fp #b0 #b... #b...)
	if len(n.kids) == 4 && n.kids[0].atom == "fp" {
		sgn, _ := sxValue(n.kids[1])
		ex, _ := sxValue(n.kids[2])
		mant, _ := sxValue(n.kids[3])
		eb := len(n.kids[2].atom) - 2
		if strings.HasPrefix(n.kids[2].atom, "#x") {
			eb = (len(n.kids[2].atom) - 2) * 4
		}
		if eb == 8 {
			return sgn<<31 | ex<<23 | mant, nil
		}
		return sgn<<63 | ex<<52 | mant, nil
	}
	// (_ +zero 11 53) etc
	if len(n.kids) == 4 && n.kids[0].atom == "_" {
		w := n.kids[2].atom
		var v uint64
		switch n.kids[1].atom {
		case "+zero":
			v = 0
		case "-zero":
			if w == "8" {
				v = 1 << 31
			} else {
				v = 1 << 63
			}
		case "+oo":
			if w == "8" {
				v = 0x7f800000
			} else {
				v = 0x7ff0000000000000
			}
		case "-oo":
			if w == "8" {
				v = 0xff800000
			} else {
				v = 0xfff0000000000000
			}
		case "NaN":
			if w == "8" {
				v = 0x7fc00000
			} else {
				v = 0x7ff8000000000000
			}
		default:
			return 0, fmt.Errorf("unknown fp special %v", n.kids[1].atom)
		}
		return v, nil
	}
	return 0, fmt.Errorf("unparsable value list")
}
