package main

import (
	"encoding/json"
	"flag"
	"fmt"
	"os"
	"path/filepath"
	"runtime"
	"sort"
	"strconv"
	"strings"
	"time"

	"golang.org/x/tools/go/ssa"
)

func main() {
	os.Setenv("PATH", "/opt/veriftools/go1.26.8/bin:"+os.Getenv("PATH"))
	os.Setenv("GOFLAGS", "-mod=mod")
	os.Setenv("GOPROXY", "off")
	os.Setenv("GOSUMDB", "off")
	os.Setenv("GOTOOLCHAIN", "local")
	if len(os.Args) < 2 {
		fmt.Fprintln(os.Stderr, "usage: vx check|replay ...")
		os.Exit(2)
	}
	switch os.Args[1] {
	case "check":
		os.Exit(cmdCheck(os.Args[2:]))
	case "replay":
		os.Exit(cmdReplay(os.Args[2:]))
	default:
		fmt.Fprintln(os.Stderr, "unknown command")
		os.Exit(2)
	}
}

type entryReport struct {
	Harness string
	Entry   string
	RR      *RunResult
	Funcs   []string
	Native  *nativeReport
	Params  map[string]int
	Solver  SolverKind
}

func cmdCheck(args []string) int {
	fs := flag.NewFlagSet("check", flag.ExitOnError)
	prop := fs.String("prop", "", "property id")
	tier := fs.String("tier", "quick", "quick|thorough")
	repo := fs.String("repo", "/repo", "repository root")
	verif := fs.String("verif", "/verif", "verif root")
	only := fs.String("only", "", "only this entry (debug)")
	hfile := fs.String("harness", "", "only this harness file (debug)")
	workers := fs.Int("workers", runtime.NumCPU(), "workers")
	noNative := fs.Bool("no-native", false, "skip native replays (debug)")
	noEvidence := fs.Bool("no-evidence", false, "do not write evidence (debug)")
	verbose := fs.Bool("v", false, "verbose")
	solverFlag := fs.String("solver", "", "override solver")
	budget := fs.Duration("budget", 0, "override wall budget per entry")
	fs.Parse(args)
	if *prop == "" {
		fmt.Fprintln(os.Stderr, "need -prop")
		return 2
	}
	seed := 0
	if s := os.Getenv("VERIF_SEED"); s != "" {
		seed, _ = strconv.Atoi(s)
	}
	t0 := time.Now()
	dir := filepath.Join(*verif, "harness", *prop)
	files, _ := filepath.Glob(filepath.Join(dir, "*.go"))
	sort.Strings(files)
	if len(files) == 0 {
		fmt.Fprintf(os.Stderr, "no harness files in %s\n", dir)
		return 2
	}
	preludeTmpl, err := os.ReadFile(filepath.Join(*verif, "harness", "prelude.go.tmpl"))
	if err != nil {
		fmt.Fprintln(os.Stderr, err)
		return 2
	}
	known := loadKnown(filepath.Join(*verif, "known_findings.json"))

	groups := map[string][]*HarnessFile{}
	var order []string
	for _, f := range files {
		h, err := parseHarness(f)
		if err != nil {
			fmt.Fprintln(os.Stderr, err)
			return 2
		}
		if _, ok := groups[h.PkgPath]; !ok {
			order = append(order, h.PkgPath)
		}
		groups[h.PkgPath] = append(groups[h.PkgPath], h)
	}

	var reports []*entryReport
	var broken []string
	for _, pkgPath := range order {
		hs := groups[pkgPath]
		ov := map[string][]byte{}
		ov["zz_vx_prelude.go"] = []byte(strings.Replace(string(preludeTmpl), "PKGNAME", hs[0].PkgName, 1))
		for _, h := range hs {
			ov["zz_vx_"+filepath.Base(h.Path)] = h.Src
		}
		extra := map[string][]byte{}
		for _, h := range hs {
			for _, o := range h.Overlays {
				b, err := os.ReadFile(o[1])
				if err != nil {
					broken = append(broken, "overlay: "+err.Error())
					continue
				}
				extra[o[0]] = b
			}
		}
		tl := time.Now()
		prog, pkg, err := loadProgram(*repo, pkgPath, ov, extra)
		if err != nil {
			fmt.Fprintf(os.Stderr, "LOAD FAILED for %s: %v\n", pkgPath, err)
			broken = append(broken, "load failed: "+pkgPath+": "+err.Error())
			continue
		}
		if *verbose {
			fmt.Fprintf(os.Stderr, "loaded %s in %s\n", pkgPath, time.Since(tl).Round(time.Millisecond))
		}
		var groupReports []*entryReport
		for _, h := range hs {
			params := map[string]int{}
			for k, v := range h.Params["all"] {
				params[k] = v
			}
			for k, v := range h.Params[*tier] {
				params[k] = v
			}
			cfg := Config{Workers: *workers, MaxDepth: 400, MaxSteps: 5_000_000, MaxPaths: 2_000_000, MaxConcretize: 300,
				FeasTimeoutMs: 10_000, IncTimeoutMs: 1000, AssertTimeoutMs: 120_000, Params: params, Solver: SolverZ3New, Witnesses: 6, StopOnViolation: true, Progress: *verbose, WallBudget: 20 * time.Minute}
			if *tier == "thorough" {
				cfg.Witnesses = 12
				cfg.WallBudget = 40 * time.Minute
				cfg.AssertTimeoutMs = 600_000
			}
			if v, ok := params["maxdepth"]; ok {
				cfg.MaxDepth = v
			}
			if v, ok := params["maxpaths"]; ok {
				cfg.MaxPaths = v
			}
			if v, ok := params["maxsteps"]; ok {
				cfg.MaxSteps = v
			}
			if v, ok := params["budget_s"]; ok {
				cfg.WallBudget = time.Duration(v) * time.Second
			}
			if v, ok := params["assert_timeout_s"]; ok {
				cfg.AssertTimeoutMs = v * 1000
			}
			if *budget > 0 {
				cfg.WallBudget = *budget
			}
			if h.Solver != "" {
				cfg.Solver = SolverKind(h.Solver)
			}
			if *solverFlag != "" {
				cfg.Solver = SolverKind(*solverFlag)
			}
			eng := &Engine{prog: prog, pkg: pkg, cfg: cfg, stubs: map[*ssa.Function]*ssa.Function{}, skipInit: map[string]bool{}, witnessed: map[string]bool{}}
			okStubs := true
			for _, st := range h.Stubs {
				target := eng.resolveFunc(st[0])
				repl := pkg.Func(st[1])
				if target == nil || repl == nil {
					broken = append(broken, fmt.Sprintf("%s: cannot resolve stub %s = %s", filepath.Base(h.Path), st[0], st[1]))
					okStubs = false
					continue
				}
				eng.stubs[target] = repl
			}
			if !okStubs {
				continue
			}
			for _, en := range h.Entries {
				if *hfile != "" && filepath.Base(h.Path) != *hfile {
					continue
				}
				if *only != "" && en != *only {
					continue
				}
				if h.ThoroughOnly[en] && *tier != "thorough" {
					continue
				}
				fn := pkg.Func(en)
				if fn == nil {
					broken = append(broken, fmt.Sprintf("%s: entry %s not found", filepath.Base(h.Path), en))
					continue
				}
				eng.evalMismatch = 0
				rr := eng.explore(fn, h.ExpectBlock[en])
				// reachability obligations: only meaningful when the exploration was complete
				if len(rr.Inconclusive) == 0 && len(rr.Violations) == 0 {
					for _, l := range h.MustReach[en] {
						if rr.Reached[l] == 0 {
							rr.Violations = append(rr.Violations, &Violation{Label: l, Kind: "unreachable", Msg: "no input within the bounds reaches " + l, Model: &Model{Vars: map[string]uint64{}, UFs: map[string]map[uint64]uint64{}}})
						}
					}
				}
				rep := &entryReport{Harness: filepath.Base(h.Path), Entry: en, RR: rr, Funcs: eng.funcList(rr.Funcs), Params: params, Solver: cfg.Solver}
				reports = append(reports, rep)
				groupReports = append(groupReports, rep)
				if *verbose {
					fmt.Fprintf(os.Stderr, "%s/%s: paths=%d completed=%d forks=%d viol=%d incon=%d q(feas=%d assert=%d sat=%d unsat=%d unk=%d cache=%d syn=%d oneshot=%d alt=%d) solver=%s wall=%s\n",
						rep.Harness, en, rr.Paths, rr.Completed, rr.Forks, len(rr.Violations), len(rr.Inconclusive), rr.QFeas, rr.QAssert, rr.QSat, rr.QUnsat, rr.QUnknown, rr.CacheHits, rr.SynHits, rr.OneShot, rr.AltSolver, rr.SolverTime.Round(time.Millisecond), rr.Wall.Round(time.Millisecond))
					for _, s := range rr.Inconclusive {
						fmt.Fprintln(os.Stderr, "   inconclusive:", s)
					}
					for _, v := range rr.Violations {
						fmt.Fprintf(os.Stderr, "   violation: %s %s %s at %s known=%q\n", v.Kind, v.Label, v.Msg, v.Site, v.Known)
					}
					if len(eng.initProblems) > 0 {
						for k, v := range eng.initProblems {
							fmt.Fprintf(os.Stderr, "   init(%s): %s\n", k, v)
						}
					}
				}
			}
		}
		if !*noNative {
			if err := runNative(*repo, *verif, *prop, pkgPath, hs, string(ov["zz_vx_prelude.go"]), groupReports); err != nil {
				broken = append(broken, "native replay: "+err.Error())
			}
		}
	}
	code := verdict(*prop, *tier, seed, reports, broken, known, *verif, !*noEvidence, time.Since(t0), *noNative)
	return code
}

// ---------- known findings ----------

type KnownFinding struct {
	Property string `json:"property"`
	Label    string `json:"label"`
	Region   string `json:"region"`
	What     string `json:"what"`
	Replay   string `json:"replay,omitempty"`
	Status   string `json:"status"` // open | fixed
	Commit   string `json:"commit,omitempty"`
}

func loadKnown(path string) []KnownFinding {
	b, err := os.ReadFile(path)
	if err != nil {
		return nil
	}
	var k []KnownFinding
	if err := json.Unmarshal(b, &k); err != nil {
		fmt.Fprintf(os.Stderr, "known_findings.json: %v\n", err)
	}
	return k
}

// ---------- verdict and evidence ----------

func verdict(prop, tier string, seed int, reports []*entryReport, broken []string, known []KnownFinding, verif string, writeEvidence bool, wall time.Duration, noNative bool) int {
	var incon []string
	incon = append(incon, broken...)
	violations := 0
	var vioLines []string
	var knownLines []string
	states, transitions, traces := 0, 0, 0
	obligations, discharged := 0, 0
	var samples []interface{}
	funcs := map[string]bool{}
	stubs := map[string]bool{}
	reach := map[string]int{}
	var solverTime time.Duration
	queries := map[string]int{}
	nontrivial := 0
	entriesOut := []map[string]interface{}{}
	bounds := map[string]interface{}{}
	diffAgree, diffTotal := 0, 0
	knownSeen := map[string]*knownState{}
	for _, r := range reports {
		rr := r.RR
		states += rr.Completed
		transitions += rr.Decisions
		nontrivial += rr.NontrivialPaths
		solverTime += rr.SolverTime
		queries["feasibility"] += rr.QFeas
		queries["assertion"] += rr.QAssert
		queries["sat"] += rr.QSat
		queries["unsat"] += rr.QUnsat
		queries["unknown"] += rr.QUnknown
		queries["answered_from_model_cache"] += rr.CacheHits
		queries["answered_syntactically_from_path_condition"] += rr.SynHits
		queries["escalated_to_one_shot_solving"] += rr.OneShot
		queries["escalated_to_second_solver_family"] += rr.AltSolver
		queries["incremental_solver_restarts_after_solver_error"] += rr.SolverRestarts
		for _, f := range r.Funcs {
			funcs[f] = true
		}
		for s := range rr.Stubs {
			stubs[s] = true
		}
		for l, n := range rr.Reached {
			reach[l] += n
		}
		for _, n := range rr.Asserts {
			obligations += n
			discharged += n
		}
		for _, s := range rr.Inconclusive {
			incon = append(incon, r.Entry+": "+s)
		}
		for _, s := range rr.Samples {
			if len(samples) < 12 {
				samples = append(samples, map[string]interface{}{"entry": r.Entry, "path": s})
			}
		}
		bounds[r.Entry] = r.Params
		eo := map[string]interface{}{"harness": r.Harness, "entry": r.Entry, "paths": rr.Paths, "completed": rr.Completed,
			"assume_pruned": rr.AssumeEnds, "forks": rr.Forks, "max_decision_depth": rr.MaxDepthSeen, "steps": rr.Steps,
			"wall_s": rr.Wall.Seconds(), "solver_s": rr.SolverTime.Seconds(), "asserts_discharged": rr.Asserts, "reached": rr.Reached, "params": r.Params}
		if r.Native != nil {
			eo["native"] = r.Native.Summary
			traces += r.Native.Agreed
			diffAgree += r.Native.Agreed
			diffTotal += r.Native.Total
			for _, m := range r.Native.Mismatches {
				incon = append(incon, r.Entry+": engine/native mismatch: "+m)
			}
		}
		entriesOut = append(entriesOut, eo)
		// violations
		for _, v := range rr.Violations {
			obligations++
			conf := "unconfirmed"
			if v.confirmed != nil {
				if *v.confirmed {
					conf = "confirmed"
				} else {
					conf = "not-reproduced"
				}
			}
			if v.Known != "" {
				// inside a known-finding region
				matched := false
				for _, k := range known {
					if k.Property == prop && k.Label == v.Known && k.Status == "open" {
						matched = true
						st := knownSeen[k.Label]
						if st == nil {
							st = &knownState{what: k.What, label: v.Label, entry: r.Entry}
							knownSeen[k.Label] = st
						}
						switch {
						case conf == "confirmed" || noNative:
							st.confirmed = true
						case conf == "not-reproduced":
							st.notReproduced = true
						}
					}
				}
				if !matched {
					// region predicate present in harness but no open entry: treat as ordinary violation
					v.Known = ""
				} else {
					continue
				}
			}
			switch conf {
			case "confirmed":
				violations++
				vioLines = append(vioLines, fmt.Sprintf("VIOLATION property=%s replay=%s", prop, v.replayPath))
				fmt.Printf("  %s %s %s at %s [%s/%s]\n", v.Kind, v.Label, v.Msg, v.Site, r.Harness, r.Entry)
			case "not-reproduced":
				incon = append(incon, fmt.Sprintf("%s: counterexample for %s (%s %s) did not reproduce natively: engine or stub wrong (replay %s; native: %s)", r.Entry, v.Label, v.Kind, v.Msg, v.replayPath, v.nativeOut))
			default:
				if noNative {
					violations++
					vioLines = append(vioLines, fmt.Sprintf("VIOLATION property=%s replay=%s", prop, "(native replay skipped)"))
					fmt.Printf("  %s %s %s at %s [%s/%s]\n", v.Kind, v.Label, v.Msg, v.Site, r.Harness, r.Entry)
				} else {
					incon = append(incon, fmt.Sprintf("%s: counterexample for %s not replayed", r.Entry, v.Label))
				}
			}
		}
		// vacuity: every reach label declared in params "reach:" must be hit – handled via expected list
	}
	// expected reach labels: from harness sources (vx_reach("...") literals)
	for _, r := range reports {
		for _, l := range r.expectedReach(verif, prop) {
			if r.RR.Reached[l] == 0 && violations == 0 {
				incon = append(incon, fmt.Sprintf("%s: reach label %q never reached (vacuity guard)", r.Entry, l))
			}
		}
		if r.RR.Completed == 0 && violations == 0 {
			incon = append(incon, fmt.Sprintf("%s: no path completed (vacuous)", r.Entry))
		}
	}
	sortedKeys := func(m map[string]bool) []string {
		var o []string
		for k := range m {
			o = append(o, k)
		}
		sort.Strings(o)
		return o
	}
	for _, st := range knownSeen {
		if st.confirmed {
			knownLines = append(knownLines, fmt.Sprintf("KNOWN-FINDING: property=%s %s (%s)", prop, st.what, st.label))
		} else {
			incon = append(incon, fmt.Sprintf("%s: known finding %s did not reproduce natively", st.entry, st.label))
		}
	}
	sort.Strings(knownLines)
	knownLines = dedupe(knownLines)
	for _, l := range knownLines {
		fmt.Println(l)
	}
	status := "held"
	code := 0
	if violations > 0 {
		status = "violation"
		code = 1
	} else if len(incon) > 0 {
		status = "inconclusive"
		code = 2
	}
	if writeEvidence {
		if states < 1 {
			states = 0
		}
		ev := map[string]interface{}{
			"property_id": prop, "tier": tier, "seed": seed, "level": "model_checking",
			"coverage": map[string]interface{}{
				"explanation": "bounded symbolic execution of the repository's own SSA (go/ssa of /repo's working tree, regenerated on this run); every branch/assertion decided by an SMT solver; holds for every input value within `bounds`, says nothing outside. states = completed symbolic paths (each stands for all concrete inputs satisfying its path condition); transitions = symbolic branch decisions; traces_validated_against_impl = witness/counterexample inputs replayed against the natively compiled code with agreeing observations.",
				"states": states, "transitions": transitions, "traces_validated_against_impl": traces,
				"samples": samples, "evaluations": states, "distinct_nontrivial": nontrivial,
				"rule": "a case is one completed symbolic path (distinct decision string); non-trivial = reached at least one vx_reach label",
				"obligations": obligations, "discharged": discharged,
				"functions_encoded": sortedKeys(funcs), "functions_encoded_count": len(funcs),
				"stubs_and_models": sortedKeys(stubs), "bounds": bounds, "queries": queries,
				"solver_time_s": solverTime.Seconds(), "solvers": solversUsed(reports),
				"reach_labels": reach, "entries": entriesOut,
				"differential_agreements": fmt.Sprintf("%d/%d", diffAgree, diffTotal),
				"status": status, "inconclusive_reasons": incon, "known_findings_reported": knownLines,
				"exhaustive": false,
			},
			"assumptions": []string{
				"A-SEQ: single goroutine; goroutine-, timer- and socket-driven code is outside the claim",
				"A-MAPORDER: maps iterate in insertion order in the model",
				"A-APPEND: append grows to max(2*cap, needed); memory beyond len is zero",
				"A-NOALIAS-POOL: sync.Pool.Get returns a fresh object",
				"A-LOG: fmt/log/qlog formatting is opaque (no side effects)",
				"trusted: go/ssa, the vx engine's operator/heap semantics (cross-checked by native replays), z3",
			},
			"wall_s": wall.Seconds(), "violations": violations,
		}
		os.MkdirAll(filepath.Join(verif, "evidence"), 0o755)
		b, _ := json.MarshalIndent(ev, "", " ")
		os.WriteFile(filepath.Join(verif, "evidence", prop+".json"), b, 0o644)
	}
	for _, l := range vioLines {
		fmt.Println(l)
	}
	fmt.Printf("vx: property=%s tier=%s status=%s paths=%d obligations=%d discharged=%d violations=%d native_agreed=%d/%d wall=%.1fs\n", prop, tier, status, states, obligations, discharged, violations, diffAgree, diffTotal, wall.Seconds())
	if code == 2 {
		for _, s := range dedupe(incon) {
			fmt.Println("INCONCLUSIVE:", s)
		}
	}
	return code
}

func dedupe(in []string) []string {
	seen := map[string]bool{}
	var out []string
	for _, s := range in {
		if !seen[s] {
			seen[s] = true
			out = append(out, s)
		}
	}
	return out
}

func (r *entryReport) expectedReach(verif, prop string) []string {
	src, err := os.ReadFile(filepath.Join(verif, "harness", prop, r.Harness))
	if err != nil {
		return nil
	}
	// labels listed in a directive: //vx:reach <entry> label1 label2 ...
	var out []string
	for _, m := range dirRe.FindAllSubmatch(src, -1) {
		if string(m[1]) == "reach" {
			f := strings.Fields(string(m[2]))
			if len(f) > 1 && f[0] == r.Entry {
				out = append(out, f[1:]...)
			}
		}
	}
	return out
}

func solversUsed(reports []*entryReport) []string {
	seen := map[string]bool{}
	var out []string
	for _, r := range reports {
		s := string(r.Solver)
		if !seen[s] {
			seen[s] = true
			out = append(out, s+" (persistent process, push/pop; one-shot escalation; second family on unknown: z3-new <-> cvc5 --solve-bv-as-int=sum)")
		}
	}
	return out
}

type knownState struct {
	what, label, entry       string
	confirmed, notReproduced bool
}
